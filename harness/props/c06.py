"""C06 — indexing by item labels reads and writes exactly the addressed entries."""
from fractions import Fraction
import itertools

import numpy as np

from arrays import (CODES, Lab, build_array, compare_lab, cq_farr, cq_oarr, cq_res, fingerprint_values, mk_universe,
                    nelem, observe, observe_array, ordered_subsets, random_values)
from common import cq_list, cq_nat, cq_bool
from indexing import (cq_key, cq_rhs, expected_getitem, in_region, normalise, observe_raw, py_key, py_rhs,
                      region_dims)

ID = "C06"
THOROUGH_ROUNDS = 2      # rounds of generate() in the thorough tier (new random draws each round)
COQ_MODULE = "Corr.Indexing"
RULE = ("arrays over every ordered dimension subset (rank <= 3 quick, <= 4 thorough) of universes with length patterns "
        "(3,2,3), (2,2,2) [thorough: (2,3,2,2)], crossed with EVERY assignment of a selector kind "
        "{none, single item, subset Dimension (permuted item order, all sizes), list (writes)} to every position; keys "
        "as dict by letter, dict by name, tuple of items, bare item, ellipsis; reads, writes of a number / a region-shaped "
        "array, items_where; malformed stream: unknown items, ambiguous bare items, numpy slices, non-subset Dimensions, "
        "lists in reads. Non-trivial: rank >= 2 with at least one selector, or a refused key.")
ASSUMPTIONS = [
    "items are unique within a dimension; a subset Dimension carries a fresh letter (flodym's replace() demands it)",
    "numpy basic/advanced indexing is modelled (Np/Index.v) after numpy's documented rule; validated by this correspondence",
]

SUBLETTER = dict(a="A", b="B", c="C", d="D")


def subdim(uni, l, items):
    return dict(letter=SUBLETTER[l], name=uni[l]["name"] + "_sub", items=list(items))


def _subset(rng, items, k):
    n = len(items)
    size = 1 + (k % n)
    sub = rng.sample(items, size)
    return sub


def gen_keys(rng, uni, dims, k0, with_lists):
    """all assignments of selector kinds to positions"""
    kinds = ["none", "single", "dim"] + (["list"] if with_lists else [])
    out = []
    k = k0
    for combo in itertools.product(kinds, repeat=len(dims)):
        if all(c == "none" for c in combo) and dims:
            continue
        entries = []
        for l, c in zip(dims, combo):
            k += 1
            items = uni[l]["items"]
            if c == "single":
                entries.append(["L", l, ["single", items[k % len(items)]]])
            elif c == "dim":
                entries.append(["L", l, ["dim", subdim(uni, l, _subset(rng, items, k))]])
            elif c == "list":
                entries.append(["L", l, ["list", _subset(rng, items, k + 1)]])
        # dict entry order and key style vary
        if k % 2:
            entries = entries[::-1]
        if k % 3 == 0:
            entries = [["N", l, s] for _, l, s in entries]
        out.append(dict(form="dict", entries=entries))
        if all(c in ("none", "single", "list") for c in combo):
            its = []
            for _, l, s in entries:
                its += [s[1]] if s[0] == "single" else list(s[1])
            if len(its) == 1:
                out.append(dict(form="bare", item=its[0]))
            elif its:
                out.append(dict(form="tuple", items=its))
                # the items of one dimension need not stand next to each other in a tuple
                multi = [s[1] for _, l, s in entries if s[0] == "list" and len(s[1]) >= 2]
                if multi and len(its) > len(multi[0]):
                    rest = [i for i in its if i not in multi[0]]
                    out.append(dict(form="tuple", items=[multi[0][0]] + rest + list(multi[0][1:])))
    return out


def generate(tier, rng):
    cases = []
    unis = [mk_universe((3, 2, 3), "abc"), mk_universe((2, 2, 2), "abc"),
            mk_universe((2, 2, 3), "abc", int_dims=("a",), falsy=True)]      # items 0 and "" (false in a boolean context)
    unis.append(mk_universe((2, 3, 2, 2), "abcd"))      # rank 4: a slice of the orders in the quick tier, more in the thorough one
    lay = ["C", "F", "V"]
    k = 0
    for ui, uni in enumerate(unis):
        L = list(uni.keys())
        subs = ordered_subsets(L)
        if len(L) == 4:
            subs = ([s for s in subs if len(s) == 4][::5] + [s for s in subs if len(s) == 3][::7]) if tier == "thorough" else \
                   [s for s in subs if len(s) == 4][1::6]
        elif ui == 1:
            subs = [s for s in subs if len(s) >= 2][::2]
        for dims in subs:
            n = nelem(uni, dims)
            k += 1
            vals = [((-1) ** (i % 3 == 1)) * (i + 1) for i in range(n)]
            arr = dict(dims=dims, values=vals, layout=lay[k % 3])
            base = dict(stream="exact", uni=dict(uni), arr=arr)
            # reads
            for key in gen_keys(rng, uni, dims, k, with_lists=False):
                cases.append(dict(base, uni=_with_sub(uni, key), steps=[dict(op="get", key=key)]))
            # writes: a number, and a region-shaped array (non-list keys)
            for key in gen_keys(rng, uni, dims, k + 7, with_lists=True):
                u2 = _with_sub(uni, key)
                st, sel = normalise(u2, dims, key)
                steps = [dict(op="set", key=key, rhs=dict(kind="num", c=99))]
                if st == "ok" and not any(s[0] == "list" for s in sel.values()):
                    rd = [d["letter"] for d in region_dims(u2, dims, sel)]
                    m = nelem(u2, rd)
                    steps = [dict(op="set", key=key, rhs=dict(kind="arr", arr=dict(dims=rd, values=[1000 + j for j in range(m)])))]
                cases.append(dict(base, uni=u2, steps=steps))
            cases.append(dict(base, steps=[dict(op="get", key=dict(form="ellipsis")), dict(op="where")]))
            # malformed
            if dims:
                l0 = dims[0]
                bad = [
                    dict(form="bare", item="nosuch"),
                    dict(form="slice"),
                    dict(form="dict", entries=[["L", l0, ["single", "nosuch"]]]),
                    dict(form="dict", entries=[["L", l0, ["dim", subdim(uni, l0, [uni[l0]["items"][0], "foreign"])]]]),
                    dict(form="dict", entries=[["L", l0, ["list", [uni[l0]["items"][0]]]]]),
                    dict(form="dict", entries=[["L", "z", ["single", uni[l0]["items"][0]]]]),
                    dict(form="tuple", items=[uni[l0]["items"][0], "nosuch"]),
                    # lists naming an unknown item that would sort between, below or above the known ones
                    dict(form="dict", entries=[["L", l0, ["list", [uni[l0]["items"][0], str(uni[l0]["items"][0]) + "x"]]]]),
                    dict(form="dict", entries=[["L", l0, ["list", ["", uni[l0]["items"][-1]]]]]),
                    dict(form="dict", entries=[["L", l0, ["list", [uni[l0]["items"][-1], "zzz"]]]]),
                    dict(form="dict", entries=[["L", l0, ["list", [str(uni[l0]["items"][0])[:-1]]]]]),
                ]
                for key in bad:
                    cases.append(dict(base, stream="malformed", uni=_with_sub(uni, key),
                                      steps=[dict(op="get", key=key), dict(op="set", key=key, rhs=dict(kind="num", c=5))]))
    # every ordered subset (sizes 2..4) of a 5-item dimension, as subset Dimension (reads, writes) and as list (writes)
    u5 = mk_universe((5, 2), "ab")
    import itertools as _it
    kk = 0
    for dims in (["a"], ["b", "a"], ["a", "b"]):
        n = nelem(u5, dims)
        arr = dict(dims=dims, values=[(i + 1) * (-1) ** (i % 4 == 1) for i in range(n)], layout="C")
        for size in (2, 3, 4):
            for sub in _it.permutations(u5["a"]["items"], size):
                kk += 1
                if tier == "quick" and len(dims) == 2 and kk % 3:
                    continue
                key = dict(form="dict", entries=[["L", "a", ["dim", subdim(u5, "a", list(sub))]]])
                u2 = _with_sub(u5, key)
                if kk % 2:
                    cases.append(dict(stream="subset-orders", uni=u2, arr=arr, steps=[dict(op="get", key=key)]))
                else:
                    keyl = dict(form="dict", entries=[["L", "a", ["list", list(sub)]]]) if kk % 4 == 0 else key
                    rhs = dict(kind="num", c=77)
                    if kk % 4 == 2:
                        # a source over the subset: every entry must land under its own label, whatever the order of the subset
                        rd = [SUBLETTER["a"] if l == "a" else l for l in dims]
                        rhs = dict(kind="arr", arr=dict(dims=rd, values=[1000 + 7 * j for j in range(nelem(u2, rd))]))
                    cases.append(dict(stream="subset-orders", uni=u2, arr=arr, steps=[dict(op="set", key=keyl, rhs=rhs), dict(op="get", key=dict(form="ellipsis"))]))
        # lists naming an item twice: the number fills the named items and nothing else
        for rep in (["a0", "a0", "a2"], ["a1", "a3", "a3"], ["a0", "a2", "a2"], ["a4", "a2", "a2", "a3"]):
            keyl = dict(form="dict", entries=[["L", "a", ["list", rep]]])
            cases.append(dict(stream="subset-orders", uni=u5, arr=arr, steps=[dict(op="set", key=keyl, rhs=dict(kind="num", c=55)), dict(op="get", key=dict(form="ellipsis"))]))
    # rank 5: one subset Dimension (items reversed) and two single items, the array stored in EVERY order of its five dimensions
    u5d = mk_universe((2, 2, 2, 2, 2), "abcde")
    import itertools as _it2
    for pi, perm in enumerate(_it2.permutations("abcde")):
        if tier == "quick" and pi % 2:
            continue
        dims = list(perm)
        arr = dict(dims=dims, values=[(i * 7) % 31 + 1 for i in range(32)], layout="C")
        key = dict(form="dict", entries=[["L", "c", ["single", u5d["c"]["items"][1]]],
                                         ["L", "b", ["dim", subdim(u5d, "b", list(reversed(u5d["b"]["items"])))]],
                                         ["L", "e", ["single", u5d["e"]["items"][0]]]])
        u2 = _with_sub(u5d, key)
        if pi % 4 < 2:
            cases.append(dict(stream="rank5", uni=u2, arr=arr, steps=[dict(op="get", key=key)]))
        else:
            rd = [("B" if l == "b" else l) for l in dims if l not in ("c", "e")]
            cases.append(dict(stream="rank5", uni=u2, arr=arr, steps=[dict(op="set", key=key, rhs=dict(kind="arr", arr=dict(dims=rd, values=[1000 + j for j in range(8)]))),
                                                                       dict(op="get", key=dict(form="ellipsis"))]))
    # chains: the array is first indexed by a bare item or tuple (whatever the library remembers about its dimension set is now
    # filled in), then read with a subset Dimension, and the RESULT is indexed by bare items of the subset: the same as on a fresh array
    uc = mk_universe((3, 2, 2), "abc")
    for dims in (["a", "b"], ["b", "a"], ["a", "b", "c"], ["c", "a", "b"]):
        arr = dict(dims=dims, values=[(i * 5) % 17 + 1 for i in range(nelem(uc, dims))], layout="C")
        for sub_items, pick in ((["a2", "a0"], "a0"), (["a1", "a2"], "a2"), (["a0", "a1", "a2"], "a1")):
            k2 = dict(form="dict", entries=[["L", "a", ["dim", subdim(uc, "a", sub_items)]]])
            for warm in (dict(form="bare", item="a1"), dict(form="tuple", items=["b0", "a0"])):
                for last in (dict(form="bare", item=pick), dict(form="tuple", items=[pick, "b1"])):
                    cases.append(dict(stream="chain", coq=False, uni=_with_sub(uc, k2), arr=arr, steps=[], chain=[warm, k2, last]))
    # ambiguous items: two dimensions sharing an item
    amb = mk_universe((2, 2), "ab")
    amb["b"]["items"] = ["a0", "b1"]
    for dims in (["a", "b"], ["b", "a"]):
        arr = dict(dims=dims, values=[1, 2, 3, 4], layout="C")
        for key in (dict(form="bare", item="a0"), dict(form="tuple", items=["a1", "a0"]), dict(form="bare", item="a1"),
                    dict(form="dict", entries=[["L", "b", ["single", "a0"]]]),
                    # the ambiguous item after an item of one of its dimensions, and after an item of the other one
                    dict(form="tuple", items=["b1", "a0"]), dict(form="tuple", items=["a0", "a1"]), dict(form="tuple", items=["a1", "b1", "a0"])):
            cases.append(dict(stream="malformed", uni=amb, arr=arr, steps=[dict(op="get", key=key)]))
            cases.append(dict(stream="malformed", uni=amb, arr=arr, steps=[dict(op="set", key=key, rhs=dict(kind="num", c=5)), dict(op="get", key=dict(form="ellipsis"))]))
    return cases


def _with_sub(uni, key):
    u = dict(uni)
    if key["form"] == "dict":
        for _, l, s in key["entries"]:
            if s[0] == "dim":
                u[s[1]["letter"]] = s[1]
    return u


def run_impl(case):
    uni = case["uni"]
    a = build_array(uni, case["arr"])
    if case.get("chain"):
        warm, k2, last = case["chain"]

        def chain(with_warm_up):
            b = build_array(uni, case["arr"])
            if with_warm_up:
                _ = b[py_key(uni, warm)]
            return b[py_key(uni, k2)][py_key(uni, last)]
        res = []
        for w in (True, False):
            r = observe(lambda: chain(w))
            if r["kind"] == "ok":
                r["value"] = observe_array(r["value"])
            res.append(r)
        return dict(kind="chain", warm=res[0], fresh=res[1])
    outs = []
    for st in case["steps"]:
        if st["op"] == "get":
            r = observe(lambda: a[py_key(uni, st["key"])])
            if r["kind"] == "ok":
                r["value"] = observe_array(r["value"])
            outs.append(r)
        elif st["op"] == "set":
            rhs = py_rhs(uni, st["rhs"])
            def do():
                a[py_key(uni, st["key"])] = rhs
                return None
            r = observe(do)
            r["post"] = observe_raw(a)
            outs.append(r)
        else:
            def wh():
                w = a.items_where(lambda x: x < 0)
                return [[str(x) for x in row] for row in w.tolist()] if w.size else []
            outs.append(observe(wh))
    return dict(kind="steps", steps=outs)


def oracle(case, obs):
    uni = case["uni"]
    dims = case["arr"]["dims"]
    if case.get("chain"):
        w, f = obs["warm"], obs["fresh"]
        d = " -> ".join(_short(k) for k in case["chain"][1:])
        if f["kind"] != "ok":
            return f"chain {d} on a fresh array refused: {f['exc']}: {f.get('msg', '')[:60]}"
        if w["kind"] != "ok":
            return f"chain {d} after the array was indexed by {_short(case['chain'][0])} refused: {w['exc']}: {w.get('msg', '')[:60]} (accepted on a fresh array)"
        if w["value"] != f["value"]:
            return f"chain {d} gives another result after the array was indexed by {_short(case['chain'][0])} than on a fresh array"
        return None
    x = Lab.from_desc(uni, case["arr"])
    for st, o in zip(case["steps"], obs["steps"]):
        if st["op"] == "where":
            if o["kind"] != "ok":
                return f"items_where raised {o['exc']}"
            exp = sorted([str(lab[l]) for l in dims] for lab in x.labels() if x.at(lab) < 0)
            if sorted(o["value"]) != exp:
                return f"items_where reports {sorted(o['value'])[:4]}..., true labels {exp[:4]}..."
            continue
        status, sel = normalise(uni, dims, st["key"])
        if status == "undef":
            continue
        if st["op"] == "get":
            if status == "err":
                if o["kind"] != "err":
                    return f"read with key {st['key']} accepted although: {sel}"
                continue
            if any(s[0] == "list" for s in sel.values()):
                if o["kind"] != "err":
                    return "read with a list selector did not raise"
                continue
            if o["kind"] == "err":
                return f"read {_short(st['key'])} refused: {o['exc']}: {o.get('msg', '')[:60]}"
            r = compare_lab(o["value"], expected_getitem(uni, x, sel), ordered=True, what=f"read {_short(st['key'])}")
            if r:
                return r
        else:
            post = o["post"]
            if [d["letter"] for d in post["dims"]] != dims or post["shape"] != [len(uni[l]["items"]) for l in dims]:
                return f"write {_short(st['key'])}: target dims/shape changed to {post['shape']}"
            got = Lab.from_obs(post)
            if status == "err":
                if o["kind"] != "err":
                    return f"write with key {_short(st['key'])} accepted although: {sel}"
                for lab in x.labels():
                    if got.at(lab) != x.at(lab):
                        return f"refused write changed entry {lab}"
                continue
            if o["kind"] == "err":
                return f"write {_short(st['key'])} refused: {o['exc']}: {o.get('msg', '')[:60]}"
            rhs = st["rhs"]
            if rhs["kind"] == "arr":
                ra = Lab.from_desc(uni, rhs["arr"])
            for lab in x.labels():
                if not in_region(sel, lab):
                    if got.at(lab) != x.at(lab):
                        return f"write {_short(st['key'])}: entry {lab} outside the addressed region changed {x.at(lab)} -> {got.at(lab)}"
                else:
                    if rhs["kind"] == "num":
                        e = Fraction(rhs["c"])
                    else:
                        rl = {}
                        for l in dims:
                            s = sel.get(l)
                            if s is None:
                                rl[l] = lab[l]
                            elif s[0] == "dim":
                                rl[s[1]["letter"]] = lab[l]
                        e = ra.at(rl)
                    if got.at(lab) != e:
                        return f"write {_short(st['key'])}: entry {lab} is {got.at(lab)}, expected {e}"
            x = got
    return None


def _short(key):
    if key["form"] != "dict":
        return str({k: v for k, v in key.items()})
    return "{" + ", ".join(f"{l}:{s[0]}{(s[1]['items'] if s[0]=='dim' else s[1])}" for _, l, s in key["entries"]) + "}"


def failure_key(case, obs, msg):
    return msg.split(" ")[0] + ("-refused" if "refused" in msg else "-wrong")


def to_coq(case, obs):
    uni = case["uni"]
    steps = []
    for st, o in zip(case["steps"], obs["steps"]):
        if st["op"] == "get":
            steps.append(f"(SGet {cq_key(uni, st['key'])} {cq_res(o, cq_oarr)})")
        elif st["op"] == "set":
            steps.append(f"(SSet {cq_key(uni, st['key'])} {cq_rhs(uni, st['rhs'])} {cq_bool(o['kind'] == 'ok')} {cq_oarr(o['post'])})")
        else:
            # items_where labels come back as strings; recode through the dimension items
            rows = []
            if o["kind"] == "ok":
                for row in o["value"]:
                    codes = []
                    for l, s in zip(case["arr"]["dims"], row):
                        it = next(i for i in uni[l]["items"] if str(i) == s)
                        codes.append(cq_nat(CODES(it)))
                    rows.append(cq_list(codes))
            steps.append(f"(SWhereNeg {cq_list(rows)})")
    return f"(mk_case {cq_farr(uni, case['arr'])} {cq_list(steps)})"


def nontrivial(case):
    return case["stream"] == "malformed" or len(case["arr"]["dims"]) >= 2


# known-finding signatures (see KNOWN_FINDINGS.jsonl)
SIGNATURES = {}
