"""C15 — operations never modify their inputs, and results are independent objects."""
import numpy as np

from arrays import mk_universe
import heapdrv
from props.c13 import _same

ID = "C15"
THOROUGH_ROUNDS = 2      # rounds of generate() in the thorough tier (new random draws each round)
COQ_MODULE = "Corr.HeapC"
SHARD = 60
RULE = ("seeded random histories as for C13 but without ill-formed calls, every operation followed (with probability "
        "1/2) by a raw write-through probe `result.values[...] = c` on the newest array; after every step all inputs are "
        "compared with their deep snapshot, numpy.shares_memory between all pairs of live arrays and identity of the "
        "dimension lists are compared with the model's sharing relation; plus an in-place edit of the newest array's "
        "dimension set at the end of the history. Non-trivial: >= 4 executed steps.")
ASSUMPTIONS = [
    "to_df / from_df, stacking / splitting, stocks built from existing arrays, lifetime parameters and stock conversion are exercised by the "
    "'api' stream (inputs deep-compared before and after, numpy.shares_memory on the outputs); they are judged by the oracle only, "
    "the heap model covers the array operations of the histories",
    "numpy view-vs-copy facts are encoded in Model/Heap.v and validated here through numpy.shares_memory",
]

INPLACE = ("set", "set_values", "set_values_arr", "rawfill")
INDEPENDENT = ("copy", "full_like", "bin", "un", "cast", "get", "cumsum")


# (stock_helper.stock_stack is not called: on the pinned tree it always raises a ValidationError, because it builds the stacked
#  stock without dims; it is not exported from the package and no listed property speaks about it)
API_CALLS = ("neutral_arithmetic", "to_df", "from_df", "set_values_from_df", "stack", "split", "stock_from_arrays", "lifetime_prms",
             "to_stock_type", "sum_values", "items_where", "from_dims_superset", "system_export", "assign_between_types")


def generate(tier, rng):
    cases = api_cases(tier, rng)
    n, maxlen = (300, 8) if tier == "quick" else (3000, 16)
    unis = [mk_universe((2, 2, 3), "abc"), mk_universe((2, 3, 2, 2), "abcd")]
    for h in range(n):
        uni = unis[h % 2]
        ops = heapdrv.gen_history(rng, uni, 2 + rng.randrange(maxlen - 1), illformed=0.03)
        out = []
        for o in ops:
            out.append(o)
            if o["op"] not in ("new",) and rng.random() < 0.5:
                out.append(dict(op="rawfill", i=-1, c=rng.randint(11, 19)))   # -1 = newest array
        cases.append(dict(stream="history", uni=uni, abstract=out))
    return cases


def api_cases(tier, rng):
    out = []
    for rep in range(6 if tier == "quick" else 12):
        for call in API_CALLS:
            for li, layout in enumerate(("C", "F")):
                # seed mod 12 runs through 0..11 over the repetitions: the variants chosen from it (which dimension is split, which
                # stock class is built, whose Dimension objects the inputs use) all occur with both layouts
                out.append(dict(stream="api", coq=False, call=call, layout=layout, seed=rng.randrange(10 ** 5) * 12 + (rep * 2 + li) % 12))
    return out


def _snap(x):
    """deep snapshot of an input: FlodymArray, DataFrame, ndarray, stock, or a list of those"""
    import pandas as pd
    import flodym as fd
    if isinstance(x, (list, tuple)):
        return [_snap(y) for y in x]
    if isinstance(x, fd.FlodymArray):
        return ("arr", [(d.letter, d.name, list(d.items), repr(d.dtype)) for d in x.dims], x.values.shape, x.values.copy())
    if isinstance(x, pd.DataFrame):
        return ("df", x.copy(deep=True))
    if isinstance(x, np.ndarray):
        return ("nd", x.copy())
    if isinstance(x, fd.Stock):
        return ("stock", _snap(x.stock), _snap(x.inflow), _snap(x.outflow))
    return ("other", repr(x))


def _equal(a, b):
    if isinstance(a, list):
        return len(a) == len(b) and all(_equal(p, q) for p, q in zip(a, b))
    if a[0] != b[0]:
        return False
    if a[0] == "arr":
        return a[1] == b[1] and a[2] == b[2] and np.array_equal(a[3], b[3], equal_nan=True)
    if a[0] == "df":
        return a[1].equals(b[1]) and list(a[1].columns) == list(b[1].columns) and a[1].index.equals(b[1].index)
    if a[0] == "nd":
        return a[1].shape == b[1].shape and np.array_equal(a[1], b[1], equal_nan=True)
    if a[0] == "stock":
        return all(_equal(p, q) for p, q in zip(a[1:], b[1:]))
    return a[1] == b[1]


def _arrays_of(x):
    import flodym as fd
    if isinstance(x, (list, tuple)):
        return [a for y in x for a in _arrays_of(y)]
    if isinstance(x, dict):
        return [a for y in x.values() for a in _arrays_of(y)]
    if isinstance(x, fd.FlodymArray):
        return [x.values]
    if isinstance(x, np.ndarray):
        return [x]
    if isinstance(x, fd.Stock):
        return [x.stock.values, x.inflow.values, x.outflow.values]
    return []


def run_api(case):
    import flodym as fd
    import stocksdrv as sd
    r = np.random.RandomState(case["seed"])
    t = fd.Dimension(name="time", letter="t", items=[2000, 2001, 2002, 2003], dtype=int)
    g = fd.Dimension(name="good", letter="g", items=["car", "bus", "van"])
    e = fd.Dimension(name="element", letter="e", items=["Fe", "Cu"])
    ds = fd.DimensionSet(dim_list=[t, g])

    def arr(dims, cls=fd.FlodymArray, lo=1, hi=9):
        v = r.randint(lo, hi, size=dims.shape).astype(float)
        if case["layout"] == "F" and v.ndim >= 2:
            v = np.asfortranarray(v)
        return cls(dims=dims, values=v)

    call = case["call"]
    # the property lists which results must be independent of their sources (copy, arithmetic, cast_to, full_like, slice reads);
    # of the calls below only split (slice reads) is among them -- for the others only "inputs unchanged" is demanded
    independent = call in ("split", "neutral_arithmetic")
    if call == "neutral_arithmetic":
        # arithmetic with the neutral element, in both operand positions and through the builtin sum(): still a NEW array
        a = arr(ds)
        b = arr(fd.DimensionSet(dim_list=[]))
        inputs = [a, b]
        one = fd.FlodymArray(dims=ds, values=np.ones(ds.shape))
        zero = fd.FlodymArray(dims=ds, values=np.zeros(ds.shape))
        f = lambda: [0 + a, 0.0 + a, np.float64(0) + a, a + 0, a - 0, 1 * a, a * 1, 1.0 * a, a / 1, a ** 1, sum([a]), sum([a], 0),
                     a + zero, zero + a, a * one, a.maximum(a), a.minimum(a), abs(a), +b if hasattr(b, "__pos__") else b + 0, 0 + b, b * 1,
                     a.cast_to(ds), a.copy(), fd.FlodymArray.full_like(a, 1.0), a[...], a[{}]]
        # (reductions that sum nothing, a.sum_to(all its dimensions), may return a view: the property does not list them)
        outputs_of = lambda res: res
    elif call == "to_df":
        a = arr(ds)
        inputs = [a]
        f = lambda: [a.to_df(index=i, dim_to_columns=c, sparse=s) for i in (True, False) for c in (None, "good") for s in (False, True)]
        outputs_of = lambda res: []
    elif call == "from_df":
        # the table in one of the layouts the importer has to massage: letters as column labels, whole-number values, a
        # one-item dimension left out, wide format with a letter-labelled id column, unlabelled columns, dimensions in the index
        s1 = fd.Dimension(name="scenario", letter="s", items=["base"])
        ds3 = fd.DimensionSet(dim_list=[t, g, s1])
        variant = case["seed"] % 8
        a = arr(ds3 if variant == 2 else ds)
        if variant == 0:
            df = a.to_df(index=False).rename(columns={"time": "t", "good": "g"})
        elif variant == 1:
            df = a.to_df(index=False)
            df["value"] = df["value"].astype(int)
        elif variant == 2:
            df = a.to_df(index=False).drop(columns=["scenario"])
        elif variant == 3:
            df = a.to_df(index=False, dim_to_columns="good").rename(columns={"time": "t"})
        elif variant == 4:
            df = a.to_df(index=False).rename(columns={"time": "c0", "good": "c1"})
        elif variant == 5:
            df = a.to_df(index=True)
        elif variant == 6:
            # the years as plain row labels (an index without a name), one column per good
            df = a.to_df(index=False, dim_to_columns="good").set_index("time")
            df.index.name = None
            df.columns.name = None
        else:
            # long form with the years as plain row labels
            df = a.to_df(index=False).set_index("time")
            df.index.name = None
        dims_used = ds3 if variant == 2 else ds
        inputs = [df]
        f = lambda: fd.FlodymArray.from_df(dims=dims_used, df=df)
        outputs_of = lambda res: [res]
    elif call == "set_values_from_df":
        a, b = arr(ds), arr(ds)
        df = b.to_df(index=False)
        if case["seed"] % 2:
            df = df.rename(columns={"time": "t", "good": "g"})
            df["value"] = df["value"].astype(int)
        if case["seed"] % 4 >= 2:
            df = df.set_index(df.columns[0])          # the years as plain row labels (an index without a name)
            df.index.name = None
        inputs = [df]
        f = lambda: a.set_values_from_df(df)
        outputs_of = lambda res: [a]
    elif call == "stack":
        parts = [arr(ds), arr(fd.DimensionSet(dim_list=[g, t]))]
        inputs = parts
        from flodym.flodym_array_helper import flodym_array_stack
        f = lambda: flodym_array_stack(parts, dimension=e)
        outputs_of = lambda res: [res]
    elif call == "split":
        a = arr(fd.DimensionSet(dim_list=[t, g, e]))
        inputs = [a]
        # along the first, a middle or the last dimension, named by letter or by name
        along = [t, g, e][case["seed"] % 3]
        f = lambda: a.split(along.letter if (case["seed"] // 3) % 2 else along.name)
        outputs_of = lambda res: list(res.values())
    elif call == "stock_from_arrays":
        # the arrays handed over may have been declared over the caller's own Dimension objects (same letters and items, other names,
        # no declared type): they are the caller's, and stay as they are
        own = fd.DimensionSet(dim_list=[fd.Dimension(name="Year", letter="t", items=list(t.items)),
                                        fd.Dimension(name="Product", letter="g", items=list(g.items))])
        ids = own if (case["seed"] // 6) % 2 else ds
        inflow = arr(ids, fd.StockArray)
        outflow = arr(ids, fd.StockArray, 0, 3)
        mean = arr(fd.DimensionSet(dim_list=[ids["g"]]), fd.Parameter, 2, 6)
        which = (case["seed"] // 2) % 3
        inputs = [inflow, mean] if which != 1 else [inflow, outflow]

        def f():
            if which == 1:
                st = fd.SimpleFlowDrivenStock(dims=ds, inflow=inflow, outflow=outflow, name="s")
            else:
                lm = fd.NormalLifetime(dims=ds, time_letter="t", mean=mean, std=2.0)
                st = (fd.InflowDrivenDSM(dims=ds, inflow=inflow, lifetime_model=lm, name="s") if which == 0 else
                      fd.StockDrivenDSM(dims=ds, stock=inflow, lifetime_model=lm, name="s"))
            st.compute()
            return st
        outputs_of = lambda res: [res.stock, res.outflow] + ([res.lifetime_model.mean, res.lifetime_model.std] if which != 1 else [])
    elif call == "stock_stack":
        def mk():
            st = fd.SimpleFlowDrivenStock(dims=ds, inflow=arr(ds, fd.StockArray), outflow=arr(ds, fd.StockArray, 0, 3), name="s")
            st.compute()
            return st
        stocks = [mk(), mk()]
        inputs = stocks
        from flodym.stock_helper import stock_stack
        f = lambda: stock_stack(stocks, dimension=e)
        outputs_of = lambda res: [res]
    elif call == "lifetime_prms":
        mean = arr(ds, fd.Parameter, 3, 9)       # same dimensions as the model: nothing to tile
        std = arr(fd.DimensionSet(dim_list=[g, t]), fd.Parameter, 1, 3)
        inputs = [mean, std]

        def f():
            lm = fd.NormalLifetime(dims=ds, time_letter="t")
            lm.set_prms(mean=mean, std=std)
            _ = lm.sf
            return lm
        outputs_of = lambda res: [res.mean, res.std]
    elif call == "to_stock_type":
        inflow = arr(ds, fd.StockArray)
        lm = fd.FixedLifetime(dims=ds, time_letter="t", mean=3)
        st = fd.InflowDrivenDSM(dims=ds, inflow=inflow, lifetime_model=lm, name="s")
        st.compute()
        inputs = [st]
        f = lambda: st.to_stock_type(fd.StockDrivenDSM, solver="manual")
        outputs_of = lambda res: []           # a conversion re-uses the arrays by design
    elif call == "sum_values":
        a = arr(ds)
        inputs = [a]
        f = lambda: (a.sum_values(), a.sum_values_over(("g",)), a.sum_values_to(("g",)), a.cast_values_to(fd.DimensionSet(dim_list=[t, g, e])))
        outputs_of = lambda res: []
    elif call == "system_export":
        # a system assembled from existing flow and stock arrays, then every export of it; the arrays hold ordinary numbers next to
        # left-overs of cancellation (a few 1e-17 beside 50), exact zeros, and -- every other time -- whole numbers in integer arrays
        import tempfile
        import shutil
        import flodym.export as fe
        procs = fd.make_processes(["sysenv", "use"])

        def noisy(a):
            v = a.values
            if case["seed"] % 2 and case["seed"] % 3 == 0:
                a.values = v.astype(np.int64)
                return a
            v.flat[0], v.flat[1], v.flat[2], v.flat[3], v.flat[4] = 50.0, 3e-17, -4e-18, 0.0, 2.5e-19
            return a
        f1 = fd.Flow(dims=ds, values=noisy(arr(ds)).values, name="sysenv => use", from_process=procs["sysenv"], to_process=procs["use"])
        f2 = fd.Flow(dims=fd.DimensionSet(dim_list=[g, t]), values=noisy(arr(fd.DimensionSet(dim_list=[g, t]))).values, name="use => sysenv",
                     from_process=procs["use"], to_process=procs["sysenv"])
        st = fd.SimpleFlowDrivenStock(dims=ds, inflow=noisy(arr(ds, fd.StockArray)), outflow=noisy(arr(ds, fd.StockArray, 0, 3)),
                                      stock=noisy(arr(ds, fd.StockArray)), name="in use", process=procs["use"])
        inputs = [f1, f2, st]

        def f():
            mfa = fd.MFASystem(dims=fd.DimensionSet(dim_list=[t, g]), parameters={}, processes=procs,
                               flows={"sysenv => use": f1, "use => sysenv": f2}, stocks={"in use": st})
            tmp = tempfile.mkdtemp(prefix="flodym-verif-io-")
            try:
                fe.convert_to_dict(mfa, type="numpy")
                fe.convert_to_dict(mfa, type="pandas")
                fe.export_mfa_to_pickle(mfa, tmp + "/m.pickle")
                fe.export_mfa_flows_to_csv(mfa, tmp + "/flows")
                fe.export_mfa_stocks_to_csv(mfa, tmp + "/stocks", with_in_and_out=bool(case["seed"] % 4 < 2))
                fe.export_mfa_stocks_to_csv(mfa, tmp + "/stocks2", with_in_and_out=True)
            finally:
                shutil.rmtree(tmp, ignore_errors=True)
            return mfa
        outputs_of = lambda res: []
    elif call == "assign_between_types":
        # an accumulator that holds whole numbers in an integer (or single-precision) array takes over a float array over the same
        # dimensions (same order or permuted), is then written into: the source stays what it was, whatever the accumulator's type
        src = arr(ds if case["seed"] % 2 else fd.DimensionSet(dim_list=[g, t]))
        kind = ["int64", "float32", "int32", "float64"][case["seed"] % 4]
        acc = fd.FlodymArray(dims=ds, values=np.zeros(ds.shape, dtype=kind))
        inputs = [src]

        def f():
            if case["seed"] % 3 == 0:
                acc.__setitem__(..., src)
            else:
                acc[...] = src
            acc.values[...] = 0
            acc[{"g": "car"}] = 5
            return acc
        outputs_of = lambda res: [res]
        independent = True
    elif call == "items_where":
        a = arr(ds)
        inputs = [a]
        f = lambda: a.items_where(lambda x: x > 4)
        outputs_of = lambda res: []
    else:
        big = fd.DimensionSet(dim_list=[t, g, e])
        inputs = [big[l] for l in "tge"]
        f = lambda: fd.FlodymArray.from_dims_superset(dims_superset=big, dim_letters=("g", "t"))
        outputs_of = lambda res: []
        inputs = []
    before = _snap(inputs)
    try:
        res = f()
    except Exception as ex:  # noqa
        return dict(kind="api", ok=False, exc=type(ex).__name__, msg=str(ex)[:160], unchanged=_equal(before, _snap(inputs)), shared=[])
    unchanged = _equal(before, _snap(inputs))
    shared = []
    if independent:
        ins = _arrays_of(inputs) + [x.values for x in inputs if hasattr(x, "values") and isinstance(getattr(x, "values", None), np.ndarray)]
        for oi, o in enumerate(_arrays_of(outputs_of(res))):
            for ii, i in enumerate(ins):
                if o is i or np.shares_memory(o, i):
                    shared.append([oi, ii])
    return dict(kind="api", ok=True, unchanged=unchanged, shared=shared)


def run_impl(case):
    if case.get("stream") == "api":
        return run_api(case)
    conc, obs = heapdrv.drive(case["uni"], case["abstract"])
    return dict(kind="history", concrete=conc, obs=obs)


def oracle(case, ob):
    if case.get("stream") == "api":
        if not ob["ok"]:
            return f"{case['call']} raised {ob['exc']}: {ob['msg'][:80]}"
        if not ob["unchanged"]:
            return f"{case['call']} (layout {case['layout']}) changed one of its inputs"
        if ob["shared"]:
            return f"{case['call']} (layout {case['layout']}): output #{ob['shared'][0][0]} shares memory with input #{ob['shared'][0][1]}"
        return None
    for si, (c, o) in enumerate(zip(ob["concrete"]["steps"], ob["obs"])):
        tag = f"step {si} {c['op']}"
        b, a = o["before"], o["after"]
        nb = len(b["arrs"])
        if c["op"] not in INPLACE and not (c["op"] in ("cumsum", "un") and c.get("inplace")):
            for ai in range(nb):
                if not _same(b["arrs"][ai], a["arrs"][ai]):
                    return f"{tag}: input array #{ai} was modified by a non-in-place operation"
        else:
            # an in-place write may only be seen by arrays that share memory with the target
            tgt = c["i"]
            linked = {tgt}
            for i, j in b["share"]:
                if i == tgt:
                    linked.add(j)
                if j == tgt:
                    linked.add(i)
            # sharing is not transitive through disjoint views, but any changed array must overlap the target
            for ai in range(nb):
                if ai not in linked and not _same(b["arrs"][ai], a["arrs"][ai]):
                    return f"{tag}: array #{ai} changed although it does not share memory with the target #{tgt}"
            # an assignment copies what it is given: it never makes two existing arrays share memory
            if c["op"] in ("set", "set_values"):
                old_pairs = {tuple(sorted(p)) for p in b["share"]}
                for i, j in a["share"]:
                    if i < nb and j < nb and tuple(sorted((i, j))) not in old_pairs:
                        return (f"{tag}: after the assignment arrays #{i} and #{j} share memory (the assigned values were not copied), "
                                f"so a later write into one changes entries of the other that nobody addressed")
        if o["ok"] and len(a["arrs"]) > nb and c["op"] in INDEPENDENT:
            new = len(a["arrs"]) - 1
            for i, j in a["share"]:
                if j == new or i == new:
                    return f"{tag}: the result shares memory with array #{min(i, j)} (writing into it changes that array)"
        for i, j in a["dshare"]:
            return f"{tag}: arrays #{i} and #{j} share one dimension list"
    return None


def failure_key(case, obs, msg):
    if case.get("stream") == "api":
        return case["call"] + msg[-30:]
    return msg.split(":", 1)[0].split(" ")[-1] + msg.split(":", 1)[1][:20]


def to_coq(case, ob):
    return heapdrv.cq_history(ob["concrete"], ob["obs"])


def nontrivial(case):
    return case.get("stream") == "api" or len(case["abstract"]) >= 4


SIGNATURES = {}
