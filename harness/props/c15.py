"""C15 — operations never modify their inputs, and results are independent objects."""
import numpy as np

from arrays import mk_universe
import heapdrv
from props.c13 import _same

ID = "C15"
COQ_MODULE = "Corr.HeapC"
SHARD = 60
RULE = ("seeded random histories as for C13 but without ill-formed calls, every operation followed (with probability "
        "1/2) by a raw write-through probe `result.values[...] = c` on the newest array; after every step all inputs are "
        "compared with their deep snapshot, numpy.shares_memory between all pairs of live arrays and identity of the "
        "dimension lists are compared with the model's sharing relation; plus an in-place edit of the newest array's "
        "dimension set at the end of the history. Non-trivial: >= 4 executed steps.")
ASSUMPTIONS = [
    "to_df / from_df, stacking/splitting, stocks, systems and export are snapshotted under C11, C17, C18, C19 (their own checks)",
    "numpy view-vs-copy facts are encoded in Model/Heap.v and validated here through numpy.shares_memory",
]

INPLACE = ("set", "set_values", "set_values_arr", "rawfill")
INDEPENDENT = ("copy", "full_like", "bin", "un", "cast", "get", "cumsum")


def generate(tier, rng):
    cases = []
    n, maxlen = (300, 8) if tier == "quick" else (3000, 16)
    unis = [mk_universe((2, 2, 3), "abc"), mk_universe((2, 3, 2, 2), "abcd")]
    for h in range(n):
        uni = unis[h % 2]
        ops = heapdrv.gen_history(rng, uni, 2 + rng.randrange(maxlen - 1), illformed=0.03)
        out = []
        for o in ops:
            out.append(o)
            if o["op"] not in ("new",) and rng.random() < 0.5:
                out.append(dict(op="rawfill", i=-1, c=rng.randint(11, 19)))   # -1 = newest array
        cases.append(dict(stream="history", uni=uni, abstract=out))
    return cases


def run_impl(case):
    conc, obs = heapdrv.drive(case["uni"], case["abstract"])
    return dict(kind="history", concrete=conc, obs=obs)


def oracle(case, ob):
    for si, (c, o) in enumerate(zip(ob["concrete"]["steps"], ob["obs"])):
        tag = f"step {si} {c['op']}"
        b, a = o["before"], o["after"]
        nb = len(b["arrs"])
        if c["op"] not in INPLACE and not (c["op"] in ("cumsum", "un") and c.get("inplace")):
            for ai in range(nb):
                if not _same(b["arrs"][ai], a["arrs"][ai]):
                    return f"{tag}: input array #{ai} was modified by a non-in-place operation"
        else:
            # an in-place write may only be seen by arrays that share memory with the target
            tgt = c["i"]
            linked = {tgt}
            for i, j in b["share"]:
                if i == tgt:
                    linked.add(j)
                if j == tgt:
                    linked.add(i)
            # sharing is not transitive through disjoint views, but any changed array must overlap the target
            for ai in range(nb):
                if ai not in linked and not _same(b["arrs"][ai], a["arrs"][ai]):
                    return f"{tag}: array #{ai} changed although it does not share memory with the target #{tgt}"
        if o["ok"] and len(a["arrs"]) > nb and c["op"] in INDEPENDENT:
            new = len(a["arrs"]) - 1
            for i, j in a["share"]:
                if j == new or i == new:
                    return f"{tag}: the result shares memory with array #{min(i, j)} (writing into it changes that array)"
        for i, j in a["dshare"]:
            return f"{tag}: arrays #{i} and #{j} share one dimension list"
    return None


def failure_key(case, obs, msg):
    return msg.split(":", 1)[0].split(" ")[-1] + msg.split(":", 1)[1][:20]


def to_coq(case, ob):
    return heapdrv.cq_history(ob["concrete"], ob["obs"])


def nontrivial(case):
    return len(case["abstract"]) >= 4


SIGNATURES = {}
