"""C10 — inflow-driven and stock-driven models are inverse; both solvers agree."""
from fractions import Fraction

import numpy as np

import stocksdrv as sd
from stocksdrv import arr
import props.c03 as c03
from common import cq_list

ID = "C10"
THOROUGH_ROUNDS = 4      # rounds of generate() in the thorough tier (new random draws each round)
COQ_MODULE = "Corr.StocksC"
COQ_HEADER = "Definition check_all (l : list case) : bool := forallb check l."
COQ_CHECK = "check_all"
COQ_CASE_TYPE = "(list case)"
SHARD = 40
RULE = ("chains: inflow-driven(i) -> stock s -> stock-driven(s) with manual AND lapack solver -> inflow-driven(inflow found); "
        "and stock-driven(s') for arbitrary stocks s' (also ones implying negative inflow) -> inflow-driven(inflow found); on the "
        "grids of C03 x 0-2 extra dimensions x probe lifetime models whose first-interval survival is 1, 1/2 or 1/4 (scalar / "
        "per-label / per-cohort), tolerance stream with scipy models (first-interval survival >= 0.05). Every stage is "
        "compared with the model; the oracle compares inflow / outflow / stock / cohort tables across the stages. "
        "Non-trivial: non-unit grid or >= 1 extra dimension.")
ASSUMPTIONS = c03.ASSUMPTIONS + ["premise: every cohort has a non-vanishing share surviving its first interval (non-zero diagonal)"]


def generate(tier, rng):
    cases = []
    for c in c03.generate(tier, rng):
        if c["cls"] == "idsm" and c["lifetime"]["kind"] != "fixed":
            cases.append(dict(stream=c["stream"], coq=c.get("coq", True), gname=c["gname"], extra=c["extra"], direction="inflow-first", base=c))
        elif c["cls"] == "sdsm" and c.get("solver") == "manual" and c["lifetime"]["kind"] != "fixed":
            cases.append(dict(stream=c["stream"], coq=c.get("coq", True), gname=c["gname"], extra=c["extra"], direction="stock-first", base=c))
            # a prescribed stock that falls faster than the lifetime allows (halving every year: the inflow found is negative), at
            # the ordinary magnitude and in a unit 2^40 times larger (all numbers of the order 1e-12): the inflow found, fed to the
            # inflow-driven model, reproduces the prescribed stock
            if not c.get("history") and len(cases) % 3 == 0:
                shp = sd.shape_of(c["grid"], c["extra"])
                inner = int(np.prod(shp[1:])) if len(shp) > 1 else 1
                for u in (0, 40):
                    drv = [str(Fraction(3 + (j % inner) + (j // inner) % 2, 2 ** (u + j // inner))) for j in range(int(np.prod(shp)))]
                    cases.append(dict(stream="tolerance", coq=False, falling=True, gname=c["gname"], extra=c["extra"], direction="stock-first",
                                      base=dict(c, driver=drv)))
    return cases


def _vals(o, key):
    return [Fraction(v[0], v[1]) if v is not None else None for v in o[key]]


def run_impl(case):
    snap = case["stream"] == "exact" and not case.get("falling")
    b = case["base"]
    stages = []
    def stage(c):
        r = sd.run_stock(c, snap=snap)
        stages.append(dict(case=c, obs=r))
        return r
    if case["direction"] == "inflow-first":
        r0 = stage(b)
        if r0["kind"] != "ok":
            return dict(kind="chain", stages=stages)
        s = [float(Fraction(v[0], v[1])) for v in sd.observe_values(np.array([float(Fraction(x[0], x[1])) for x in r0["value"]["stock"]]), False)]
        for solver in ("manual", "lapack"):
            r = stage(dict(b, cls="sdsm", solver=solver, driver=s))
        if stages[1]["obs"]["kind"] == "ok":
            i2 = [float(Fraction(v[0], v[1])) for v in stages[1]["obs"]["value"]["inflow"]]
            stage(dict(b, cls="idsm", driver=i2))
    else:
        r0 = stage(b)
        stage(dict(b, solver="lapack"))
        if r0["kind"] == "ok" and all(v is not None for v in r0["value"]["inflow"]):
            i2 = [float(Fraction(v[0], v[1])) for v in r0["value"]["inflow"]]
            stage(dict(b, cls="idsm", driver=i2))
    return dict(kind="chain", stages=stages)


def _close(a, b, eps):
    return all(x is not None and y is not None and abs(x - y) <= eps for x, y in zip(a, b)) and len(a) == len(b)


def oracle(case, obs):
    st = obs["stages"]
    for s in st:
        if s["obs"]["kind"] != "ok":
            return f"stage {s['case']['cls']}/{s['case'].get('solver')} raised {s['obs']['exc']}"
    v = [s["obs"]["value"] for s in st]
    allv = [x for o in v for key in ("stock", "inflow", "outflow") for x in _vals(o, key)]
    if any(x is None for x in allv):
        return "non-finite values (division by a vanishing first-interval survival?)"
    scale = max([abs(x) for x in allv] + [Fraction(0 if case.get("falling") else 1)])
    eps = Fraction(0) if case["stream"] == "exact" else scale * Fraction(1, 10 ** 7)
    g = f"grid {case['gname']}"
    for stg, o in zip(st, v):
        if stg["case"]["cls"] == "sdsm" and not _close(_vals(o, "stock"), [Fraction(x) for x in stg["case"]["driver"]], eps):
            return f"{g}: the prescribed stock was altered by compute() ({stg['case'].get('solver')} solver)"
    if case["direction"] == "inflow-first":
        i0 = [Fraction(x) for x in case["base"]["driver"]]
        for j, name in ((1, "manual"), (2, "lapack")):
            if not _close(_vals(v[j], "inflow"), i0, eps):
                return f"{g}: stock-driven ({name}) on the inflow-driven stock does not return the original inflow"
            for key in ("outflow", "sbc", "obc"):
                if not _close(_vals(v[j], key), _vals(v[0], key), eps):
                    return f"{g}: {key} of the stock-driven model ({name}) differs from the inflow-driven one"
        if not _close(_vals(v[3], "stock"), _vals(v[0], "stock"), eps):
            return f"{g}: inflow-driven on the recovered inflow does not reproduce the stock"
    else:
        for key in ("inflow", "outflow", "sbc", "obc"):
            if not _close(_vals(v[0], key), _vals(v[1], key), eps):
                return f"{g}: manual and lapack solvers disagree on {key}"
        if len(v) > 2 and not _close(_vals(v[2], "stock"), [Fraction(x) for x in case["base"]["driver"]], eps):
            return f"{g}: inflow-driven model on the stock-driven inflow does not reproduce the prescribed stock"
        if len(v) > 2:
            for key in ("outflow", "sbc", "obc"):
                if not _close(_vals(v[2], key), _vals(v[0], key), eps):
                    return f"{g}: {key} differs between the stock-driven model and the inflow-driven model on its inflow"
    return None


def failure_key(case, obs, msg):
    return msg.split(":")[-1][:30]


def to_coq(case, obs):
    return cq_list([sd.cq_stock_case(s["case"], s["obs"]["value"]) for s in obs["stages"] if s["obs"]["kind"] == "ok"])


def nontrivial(case):
    return case["gname"] != "unit" or len(case["extra"]) >= 1


def weight(case):
    return 4 if case["direction"] == "inflow-first" else 3


SIGNATURES = {}
