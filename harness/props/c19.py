"""C19 — exports reproduce every flow and stock under its labels."""
from fractions import Fraction
import itertools
import os
import pickle
import re
import shutil
import tempfile
import unicodedata

import numpy as np
import pandas as pd

from arrays import fl_dimset, mk_universe, nelem, obs_dims, observe_values, ordered_subsets
from common import cq_bool, cq_list, cq_nat
import props.c02 as c02

ID = "C19"
THOROUGH_ROUNDS = 2      # rounds of generate() in the thorough tier (new random draws each round)
COQ_MODULE = "Corr.C19"
SHARD = 200
RULE = ("seeded random systems (graphs of C02; flows over ordered dimension subsets, 0-3 stocks) whose process, flow and stock "
        "names contain spaces, arrows, brackets, slashes, dots, dashes, underscores, upper case and digits (distinct after "
        "file-name sanitising), non-integral values; convert_to_dict (numpy and pandas form), pickle export read back, CSV "
        "export of flows and of stocks (with and without inflow/outflow) into a temporary directory, every file re-imported "
        "with from_df; deep snapshot of the system before and after; MFADefinition.to_dfs on random definitions. The file-name "
        "sanitiser and the set of files written are compared with the model. Non-trivial: >= 2 flows or a stock.")
ASSUMPTIONS = ["Unicode normalisation, pickle and CSV text are runtime; names are ASCII (the sanitiser is modelled on ASCII)",
               "names stay distinct after sanitising (the property's premise)"]

DECOR = ["{} (new)", "{} => out", "A/{}", "{}.v2", "--{}--", "{} & co", "{}_x", "[{}]", "{}  two  spaces", "{}:3", "{}, net"]


def slug_ref(value):
    """independent transcription of the documented behaviour (django's slugify with underscores)"""
    value = unicodedata.normalize("NFKD", str(value)).encode("ascii", "ignore").decode("ascii")
    value = re.sub(r"[^\w\s-]", "", value.lower())
    return re.sub(r"[-\s]", "_", value).strip("-_")


def generate(tier, rng):
    cases = []
    n = 40 if tier == "quick" else 300
    for k in range(n):
        base = c02.gen_system(rng, k)
        # decorate names, keep them distinct after sanitising
        ren = {}
        used = set()
        for i, p in enumerate(base["procs"]):
            if p == "sysenv":
                ren[p] = p
                continue
            for attempt in range(20):
                cand = DECOR[(k + i + attempt) % len(DECOR)].format(p.upper() if (k + i) % 2 else p)
                if slug_ref(cand) and slug_ref(cand) not in used:
                    break
            used.add(slug_ref(cand))
            ren[p] = cand
        procs = [ren[p] for p in base["procs"]]
        flows, fused = [], set()
        for i, f in enumerate(base["flows"]):
            nm = f"{ren[f['frm']]} => {ren[f['to']]}"
            if slug_ref(nm) in fused:
                nm = nm + f" #{i}"
            fused.add(slug_ref(nm))
            vals = [str(Fraction(v) + Fraction((i + j) % 4, 4)) for j, v in enumerate(f["arr"]["values"])]
            flows.append(dict(name=nm, frm=ren[f["frm"]], to=ren[f["to"]], arr=dict(dims=f["arr"]["dims"], values=vals)))
        stocks = []
        for i, s in enumerate(base["stocks"]):
            stocks.append(dict(s, name=DECOR[(k + i) % len(DECOR)].format(f"Stock {i}"), proc=(ren[s["proc"]] if s["proc"] else None)))
        uni_k = base["uni"]
        if k % 4 == 1:
            # a dimension of the system that no flow and no stock is defined over (one that only parameters use): it belongs to the
            # system's dimensions all the same, and to every export of them
            uni_k = dict(uni_k, z=dict(letter="z", name="zone (unused)", items=["z0", "z1"]))
        cases.append(dict(stream="exact", kind="system", sys=dict(uni=uni_k, procs=procs, flows=flows, stocks=stocks), with_in_out=(k % 2 == 0),
                          own_names=(k % 3 == 2)))
    # whole numbers beyond 2^53 held in integer arrays (counts of items, money in cents): the numpy dictionary and the pickle hold
    # exactly these numbers
    for k in range(4 if tier == "quick" else 12):
        cases.append(dict(cases[k], stream="bigint", kind="bigint", coq=False))
    for k in range(30 if tier == "quick" else 200):
        body = "".join(rng.choice("abcXYZ019 _-./()[]=>&,:;#'\"\t") for _ in range(rng.randint(1, 14)))
        cases.append(dict(stream="names", kind="name", name=body))
    for nm in ["Übergang Öl", "naïve café", "Ünicode — dash", "日本 steel"]:
        cases.append(dict(stream="names", kind="name", coq=False, name=nm))   # Unicode normalisation: oracle only
    import props.c18 as c18
    for k in range(10 if tier == "quick" else 60):
        cases.append(dict(stream="definitions", kind="to_dfs", coq=False, defn=c18.gen_definition(rng, k)))
    return cases


def _snapshot(mfa):
    return dict(flows={n: (obs_dims(f.dims), observe_values(f.values), f.from_process.name, f.to_process.name) for n, f in mfa.flows.items()},
                stocks={n: (obs_dims(s.dims), observe_values(s.stock.values), observe_values(s.inflow.values), observe_values(s.outflow.values)) for n, s in mfa.stocks.items()},
                procs=[(p.name, p.id) for p in mfa.processes.values()], dims=obs_dims(mfa.dims))


def run_impl(case):
    import flodym as fd
    import flodym.export as fe
    from flodym.export.helper import to_valid_file_name
    if case["kind"] == "name":
        return dict(kind="ok", value=to_valid_file_name(case["name"]))
    if case["kind"] == "to_dfs":
        import props.c18 as c18
        try:
            defn = c18._mk_definition(case["defn"])
            dfs = defn.to_dfs()
            # every cell against the field of the definition it stands for (None stays None, tuples stay tuples, classes stay classes)
            cells = []
            for kind, table in dfs.items():
                for i, d in enumerate(getattr(defn, kind)):
                    fields = {"name": d} if isinstance(d, str) else {f: getattr(d, f) for f in type(d).model_fields}
                    if i >= len(table):
                        break
                    for f, want in fields.items():
                        if f not in table.columns:
                            cells.append(f"{kind} row {i}: no column {f!r}")
                            continue
                        got = table.iloc[i][f]
                        same = (got is None) if want is None else (got is not None and type(got) is type(want) and got == want)
                        if not same:
                            cells.append(f"{kind} row {i} field {f!r}: the table holds {got!r} ({type(got).__name__}), the definition {want!r}")
                    for c in table.columns:
                        if c not in fields:
                            cells.append(f"{kind}: column {c!r} is no field of the definition")
            return dict(kind="ok", cells=cells[:5],
                        tables={k: dict(columns=list(map(str, v.columns)), rows=len(v),
                                        first={c: str(v.iloc[0][c]) for c in v.columns} if len(v) else {}) for k, v in dfs.items()})
        except Exception as e:  # noqa
            return dict(kind="err", exc=type(e).__name__, msg=str(e)[:150])
    mfa = c02.build_system(case["sys"])
    if case["kind"] == "bigint":
        want = {}
        for kind, objs in (("flows", mfa.flows), ("stocks", mfa.stocks)):
            for j, (n, o) in enumerate(objs.items()):
                arr = o if kind == "flows" else o.stock
                if j % 2 == 0:
                    arr.values = (2 ** 53 + 1 + 2 * np.arange(arr.values.size, dtype=np.int64)).reshape(arr.values.shape) * (-1) ** (j // 2)
                want[f"{kind}|{n}"] = [str(Fraction(x)) for x in arr.values.flatten().tolist()]
        tmp = tempfile.mkdtemp(prefix="flodym-verif-io-")
        try:
            d_np = fe.convert_to_dict(mfa, type="numpy")
            pk = os.path.join(tmp, "out.pickle")
            fe.export_mfa_to_pickle(mfa, pk)
            loaded = pickle.load(open(pk, "rb"))
            got = {src: {f"{kind}|{n}": [str(Fraction(x)) for x in np.asarray(v).flatten().tolist()] for kind in ("flows", "stocks") for n, v in d[kind].items()}
                   for src, d in (("numpy dictionary", d_np), ("pickle", loaded))}
            return dict(kind="ok", value=dict(want=want, got=got))
        except Exception as e:  # noqa
            return dict(kind="err", exc=type(e).__name__, msg=str(e)[:200])
        finally:
            shutil.rmtree(tmp, ignore_errors=True)
    if case.get("own_names"):
        # a hand-assembled system: the objects carry names of their own (the default "unnamed"), the system knows them by its keys
        for f in mfa.flows.values():
            f.name = "unnamed"
        for st in mfa.stocks.values():
            st.name = "a stock"
            for q in (st.stock, st.inflow, st.outflow):
                q.name = "unnamed"
    before = _snapshot(mfa)
    tmp = tempfile.mkdtemp(prefix="flodym-verif-io-")
    out = {}
    try:
        d_np = fe.convert_to_dict(mfa, type="numpy")
        d_pd = fe.convert_to_dict(mfa, type="pandas")
        out["numpy"] = {k: ({n: observe_values(v) for n, v in d_np[k].items()} if k in ("flows", "stocks") else d_np[k]) for k in d_np}
        pd_back = {}
        for kind in ("flows", "stocks"):
            for n, df in d_pd[kind].items():
                arr = mfa.flows[n] if kind == "flows" else mfa.stocks[n].stock
                try:
                    pd_back[(kind, n)] = observe_values(fd.FlodymArray.from_df(dims=arr.dims, df=df).values)
                except Exception as e:  # noqa
                    pd_back[(kind, n)] = f"{type(e).__name__}: {e}"[:120]
        out["pandas_back"] = {f"{k}|{n}": v for (k, n), v in pd_back.items()}
        out["pandas_other_keys"] = {k: d_pd[k] for k in d_pd if k not in ("flows", "stocks")}
        pk = os.path.join(tmp, "out.pickle")
        fe.export_mfa_to_pickle(mfa, pk)
        loaded = pickle.load(open(pk, "rb"))
        out["pickle_same"] = all(np.array_equal(loaded[k][n], d_np[k][n]) for k in ("flows", "stocks") for n in d_np[k]) and \
            all(loaded[k] == d_np[k] for k in d_np if k not in ("flows", "stocks"))
        fdir, sdir = os.path.join(tmp, "flows"), os.path.join(tmp, "stocks")
        fe.export_mfa_flows_to_csv(mfa, fdir)
        fe.export_mfa_stocks_to_csv(mfa, sdir, with_in_and_out=case["with_in_out"])
        out["flow_files"] = sorted(os.listdir(fdir))
        out["stock_files"] = sorted(os.listdir(sdir)) if os.path.isdir(sdir) else []
        csv_back = {}
        for n, f in mfa.flows.items():
            path = os.path.join(fdir, to_valid_file_name(n) + ".csv")
            try:
                csv_back["flow|" + n] = observe_values(fd.FlodymArray.from_df(dims=f.dims, df=pd.read_csv(path)).values)
            except Exception as e:  # noqa
                csv_back["flow|" + n] = f"{type(e).__name__}: {e}"[:120]
        for n, s in mfa.stocks.items():
            for q in (["stock", "inflow", "outflow"] if case["with_in_out"] else ["stock"]):
                path = os.path.join(sdir, f"{to_valid_file_name(n)}_{q}.csv")
                try:
                    csv_back[f"{q}|{n}"] = observe_values(fd.FlodymArray.from_df(dims=s.dims, df=pd.read_csv(path)).values)
                except Exception as e:  # noqa
                    csv_back[f"{q}|{n}"] = f"{type(e).__name__}: {e}"[:120]
        out["csv_back"] = csv_back
        out["unchanged"] = _snapshot(mfa) == before
        # the tables handed out are a record of the system at the time of the export: the owner goes on working on the system in place
        # (a next scenario), and the tables exported before still hold what was exported
        frozen = {(kind, n): df.copy(deep=True) for kind in ("flows", "stocks") for n, df in d_pd[kind].items()}
        for f in mfa.flows.values():
            f.values[...] = f.values * 2 + 1
        for st_ in mfa.stocks.values():
            for q in (st_.stock, st_.inflow, st_.outflow):
                q.values[...] = q.values * 2 + 1
        out["export_follows_system"] = [f"{kind} {n}" for (kind, n), df0 in frozen.items() if not df0.equals(d_pd[kind][n])]
    except Exception as e:  # noqa
        return dict(kind="err", exc=type(e).__name__, msg=str(e)[:200])
    finally:
        shutil.rmtree(tmp, ignore_errors=True)
    return dict(kind="ok", value=out)


def _fr(vs):
    return [None if v is None else Fraction(v[0], v[1]) for v in vs]


def oracle(case, obs):
    if case["kind"] == "name":
        want = slug_ref(case["name"])
        return None if obs["value"] == want else f"to_valid_file_name({case['name']!r}) = {obs['value']!r}, documented behaviour gives {want!r}"
    if case["kind"] == "to_dfs":
        d = case["defn"]
        if obs["kind"] == "err":
            return f"to_dfs raised {obs['exc']}: {obs['msg'][:80]}"
        want = {"dimensions": len(d["letters"]), "processes": len(d["procs"]), "flows": len(d["flows"]), "stocks": len(d["stocks"]), "parameters": len(d["params"])}
        got = {k: v["rows"] for k, v in obs["tables"].items()}
        if got != {k: n for k, n in want.items() if n}:
            return f"to_dfs tables {got} != one row per definition {want}"
        if d["flows"]:
            f0, t = d["flows"][0], obs["tables"]["flows"]["first"]
            if t.get("from_process_name") != f0["frm"] or t.get("to_process_name") != f0["to"] or t.get("dim_letters") != str(tuple(f0["dims"])):
                return f"to_dfs flows row {t} does not hold the definition's field values {f0}"
        if obs.get("cells"):
            return "to_dfs: " + obs["cells"][0]
        return None
    if obs["kind"] == "err":
        return f"export raised {obs['exc']}: {obs['msg'][:100]}"
    if case["kind"] == "bigint":
        for src, g in obs["value"]["got"].items():
            for key, w in obs["value"]["want"].items():
                if g.get(key) != w:
                    j = next((i for i, (a, b) in enumerate(zip(g.get(key) or [], w)) if a != b), 0)
                    return f"{src}: {key} holds {(g.get(key) or [None])[j] if g.get(key) else None} where the system holds {w[j]} (integer array beyond 2^53)"
        return None
    o = obs["value"]
    s = case["sys"]
    uni = s["uni"]
    np_ = o["numpy"]
    exp_vals = lambda vals: [None if v == "nan" else Fraction(v) for v in vals]
    if np_["dimension_names"] != {l: uni[l]["name"] for l in uni} or np_["dimension_items"] != {uni[l]["name"]: uni[l]["items"] for l in uni}:
        return "dimension letters / names / items in the dictionary differ from the system"
    if np_["processes"] != s["procs"]:
        return f"process list {np_['processes']} != {s['procs']}"
    if sorted(np_["flows"]) != sorted(f["name"] for f in s["flows"]):
        return "not every flow is in the dictionary"
    for f in s["flows"]:
        if _fr(np_["flows"][f["name"]]) != exp_vals(f["arr"]["values"]):
            return f"flow {f['name']!r}: values in the dictionary differ"
        if list(np_["flow_dimensions"][f["name"]]) != f["arr"]["dims"] or tuple(np_["flow_processes"][f["name"]]) != (f["frm"], f["to"]):
            return f"flow {f['name']!r}: dimensions or end points in the dictionary differ"
        for form, key in (("pandas", "pandas_back"), ("CSV", "csv_back")):
            back = o[key].get(("flows|" if form == "pandas" else "flow|") + f["name"])
            if not isinstance(back, list) or _fr(back) != exp_vals(f["arr"]["values"]):
                return f"flow {f['name']!r}: the {form} form does not read back into the identical array ({str(back)[:80]})"
    for st in s["stocks"]:
        if st["name"] not in np_["stocks"] or _fr(np_["stocks"][st["name"]]) != exp_vals(st["stock"]):
            return f"stock {st['name']!r}: values in the dictionary differ"
        if list(np_["stock_dimensions"][st["name"]]) != st["dims"]:
            return f"stock {st['name']!r}: dimensions differ"
        if (st["proc"] is not None) != (st["name"] in np_["stock_processes"]) or (st["proc"] and np_["stock_processes"][st["name"]] != st["proc"]):
            return f"stock {st['name']!r}: process in the dictionary differs"
        for q, vals in (("stock", st["stock"]), ("inflow", st["inflow"]), ("outflow", st["outflow"])):
            if q != "stock" and not case["with_in_out"]:
                continue
            back = o["csv_back"].get(f"{q}|{st['name']}")
            if not isinstance(back, list) or _fr(back) != exp_vals(vals):
                return f"stock {st['name']!r} {q}: the CSV file does not read back into the identical array ({str(back)[:80]})"
        back = o["pandas_back"].get("stocks|" + st["name"])
        if not isinstance(back, list) or _fr(back) != exp_vals(st["stock"]):
            return f"stock {st['name']!r}: the pandas form does not read back"
    if not o["pickle_same"]:
        return "the pickle file does not hold the dictionary"
    want_f = sorted(slug_ref(f["name"]) + ".csv" for f in s["flows"])
    want_s = sorted(f"{slug_ref(st['name'])}_{q}.csv" for st in s["stocks"] for q in (["stock", "inflow", "outflow"] if case["with_in_out"] else ["stock"]))
    if o["flow_files"] != want_f or o["stock_files"] != want_s:
        return f"files written {o['flow_files']} / {o['stock_files']}, expected one per flow / stock quantity {want_f} / {want_s}"
    if o.get("export_follows_system"):
        return f"the pandas tables exported earlier changed when the system was worked on afterwards: {o['export_follows_system'][:2]}"
    if not o["unchanged"]:
        return "exporting altered the system"
    return None


def failure_key(case, obs, msg):
    return re.sub(r"'[^']*'", "X", msg)[:40]


def _s(txt):
    return cq_list([cq_nat(ord(c)) for c in txt])


def to_coq(case, obs):
    if case["kind"] == "name":
        return f"(CName {_s(case['name'])} {_s(obs['value'])})"
    s = case["sys"]
    files = sorted((obs["value"]["flow_files"] + obs["value"]["stock_files"]) if obs["kind"] == "ok" else [], key=lambda t: [ord(c) for c in t])
    files = sorted(set(files), key=lambda t: [ord(c) for c in t])
    return f"(CFiles {cq_list([_s(f['name']) for f in s['flows']])} {cq_list([_s(st['name']) for st in s['stocks']])} {cq_bool(case['with_in_out'])} {cq_list([_s(f) for f in files])})"


def nontrivial(case):
    return case["kind"] != "system" or len(case["sys"]["flows"]) >= 2 or bool(case["sys"]["stocks"])


SIGNATURES = {}
