"""Fail-closed extractor of source facts -> coq/theories/Gen/SourceFacts.v (filled in later)."""
import os

from common import COQ, REPO


def regenerate():
    return True, "no facts yet"
