"""Fail-closed extractor of source facts: parses /repo's current source with `ast` and regenerates
coq/theories/Gen/SourceFacts.v (rewritten only when its content changes, so `make` stays incremental).

Facts: the Gauss-Lobatto node / weight tables as the exact rational values of the floats in the source;
the quadrature rule selection of LifetimeModel.get_quad_points_and_weights (limit, node/weight transform,
the start/middle/end points); the interval-bound expression of UnevenTimeDim.compute_t_bounds; the einsum
subscripts used by the stock classes; the thresholds of check_stock_balance; the default-tolerance factor of
check_mass_balance / check_flows.  An unexpected AST shape is reported as a broken tie (never defaulted)."""
from __future__ import annotations

import ast
import os
import re
from fractions import Fraction

from common import COQ, REPO

OUT = os.path.join(COQ, "theories", "Gen", "SourceFacts.v")


class TieBroken(Exception):
    pass


def _num(node):
    if isinstance(node, ast.Constant) and isinstance(node.value, (int, float)) and not isinstance(node.value, bool):
        return node.value
    if isinstance(node, ast.UnaryOp) and isinstance(node.op, ast.USub):
        return -_num(node.operand)
    if isinstance(node, ast.UnaryOp) and isinstance(node.op, ast.UAdd):
        return _num(node.operand)
    raise TieBroken(f"not a numeric literal: {ast.dump(node)[:80]}")


def q(x):
    fr = Fraction(x)
    return f"({fr.numerator} # {fr.denominator})"


def _find(tree, kind, name):
    for n in ast.walk(tree):
        if isinstance(n, kind) and getattr(n, "name", None) == name:
            return n
    raise TieBroken(f"{kind.__name__} {name} not found")


def _norm(src):
    return re.sub(r"\s+", " ", src).strip()


def gl_tables():
    tree = ast.parse(open(os.path.join(REPO, "flodym", "gauss_lobatto.py")).read())
    tabs = {}
    for node in tree.body:
        if isinstance(node, ast.Assign) and len(node.targets) == 1 and isinstance(node.targets[0], ast.Name):
            nm = node.targets[0].id
            if nm in ("gl_nodes", "gl_weights"):
                if not isinstance(node.value, ast.Dict):
                    raise TieBroken(f"{nm} is not a dict literal")
                d = {}
                for k, v in zip(node.value.keys, node.value.values):
                    if not isinstance(v, ast.List):
                        raise TieBroken(f"{nm}[{ast.dump(k)}] is not a list literal")
                    d[int(_num(k))] = [_num(e) for e in v.elts]
                tabs[nm] = d
    if set(tabs) != {"gl_nodes", "gl_weights"}:
        raise TieBroken("gl_nodes / gl_weights not both found as module-level dict literals")
    return tabs


QUAD_TEMPLATE = _norm('''
def get_quad_points_and_weights(self):
    if self.n_pts_per_interval > LIMIT:
        raise ValueError(MSG)
    if self.n_pts_per_interval > 1:
        nodes = [(x + 1) / 2 for x in gl_nodes[self.n_pts_per_interval]]
        weights = [w / 2 for w in gl_weights[self.n_pts_per_interval]]
        return (nodes, weights)
    elif self.inflow_at == 'start':
        return ([E0], [1])
    elif self.inflow_at == 'middle':
        return ([E1], [1])
    elif self.inflow_at == 'end':
        return ([E2], [1])
''')


def quad_rule(tree):
    fn = _find(tree, ast.FunctionDef, "get_quad_points_and_weights")
    fn.body = [b for b in fn.body if not (isinstance(b, ast.Expr) and isinstance(b.value, ast.Constant) and isinstance(b.value.value, str))]
    src = _norm(ast.unparse(fn))
    pat = re.escape(QUAD_TEMPLATE)
    pat = pat.replace("LIMIT", r"(?P<limit>\d+)").replace("MSG", r"(?P<msg>'[^']*')")
    for k in ("E0", "E1", "E2"):
        pat = pat.replace(k, rf"(?P<{k}>[-0-9.]+)")
    m = re.fullmatch(pat, src)
    if not m:
        raise TieBroken("get_quad_points_and_weights no longer has the expected shape: " + src[:200])
    return int(m.group("limit")), [float(m.group(k)) for k in ("E0", "E1", "E2")]


BOUNDS_TEMPLATE = _norm('''
def compute_t_bounds(self):
    middle = (np.array(self.dim.items[:-1]) + np.array(self.dim.items[1:])) / 2.0
    self._bounds = np.concatenate(([middle[0] - (middle[1] - middle[0])], middle, [middle[-1] + (middle[-1] - middle[-2])]))
''')

REMAINING_TEMPLATE = _norm('''
def _remaining_ages(self, m, eta):
    t = eta * self._t.bounds[m + 1] + (1 - eta) * self._t.bounds[m]
    return self._tile(self._t.bounds[m + 1:] - t)
''')


def expect_fn(tree, name, template):
    fn = _find(tree, ast.FunctionDef, name)
    fn.body = [b for b in fn.body if not (isinstance(b, ast.Expr) and isinstance(b.value, ast.Constant) and isinstance(b.value.value, str))]
    src = _norm(ast.unparse(fn))
    if src != template:
        raise TieBroken(f"{name} no longer has the expected shape: {src[:240]}")


def stock_facts():
    src = open(os.path.join(REPO, "flodym", "stocks.py")).read()
    tree = ast.parse(src)
    subs = []
    for n in ast.walk(tree):
        if isinstance(n, ast.Call) and isinstance(n.func, ast.Attribute) and n.func.attr == "einsum":
            if not (n.args and isinstance(n.args[0], ast.Constant) and isinstance(n.args[0].value, str)):
                raise TieBroken("einsum call in stocks.py without a literal subscript string")
            subs.append(n.args[0].value)
    allowed = {"t...,t->t...", "c...,tc...->tc..."}
    if not subs or set(subs) - allowed:
        raise TieBroken(f"unexpected einsum subscripts in stocks.py: {sorted(set(subs))}")
    fn = _find(tree, ast.FunctionDef, "check_stock_balance")
    thr = []
    for n in ast.walk(fn):
        if isinstance(n, ast.Compare) and len(n.ops) == 1 and isinstance(n.ops[0], ast.Gt) and isinstance(n.left, ast.Name) and n.left.id == "balance":
            thr.append(_num(n.comparators[0]))
    if len(thr) != 2:
        raise TieBroken(f"check_stock_balance: expected two 'balance > c' comparisons, found {thr}")
    return sorted(set(subs)), thr


def system_facts():
    tree = ast.parse(open(os.path.join(REPO, "flodym", "mfa_system.py")).read())
    factors = []
    for fname in ("check_mass_balance", "check_flows"):
        fn = _find(tree, ast.FunctionDef, fname)
        found = None
        for n in ast.walk(fn):
            if isinstance(n, ast.Assign) and isinstance(n.targets[0], ast.Name) and n.targets[0].id == "tolerance":
                v = n.value
                if isinstance(v, ast.BinOp) and isinstance(v.op, ast.Mult) and isinstance(v.right, ast.Attribute) and v.right.attr == "_absolute_float_precision":
                    found = _num(v.left)
        if found is None:
            raise TieBroken(f"{fname}: default tolerance is no longer '<factor> * self._absolute_float_precision'")
        factors.append(found)
    return factors


def build_text():
    tabs = gl_tables()
    lt_tree = ast.parse(open(os.path.join(REPO, "flodym", "lifetime_models.py")).read())
    limit, etas = quad_rule(lt_tree)
    expect_fn(lt_tree, "compute_t_bounds", BOUNDS_TEMPLATE)
    expect_fn(lt_tree, "_remaining_ages", REMAINING_TEMPLATE)
    subs, thr = stock_facts()
    factors = system_facts()
    L = []
    L.append("(* GENERATED by harness/translate.py from /repo's current source — do not edit. *)")
    L.append("From Coq Require Import List ZArith QArith String.")
    L.append("Import ListNotations.")
    L.append("Local Open Scope Q_scope.")
    for nm in ("gl_nodes", "gl_weights"):
        rows = []
        for n in sorted(tabs[nm]):
            rows.append(f"  ({n}%nat, [{'; '.join(q(x) for x in tabs[nm][n])}])")
        L.append(f"Definition {nm}_src : list (nat * list Q) :=\n  [\n" + ";\n".join(rows) + "\n  ].")
    L.append(f"Definition n_pts_limit_src : nat := {limit}%nat.")
    L.append(f"Definition eta_start_src : Q := {q(etas[0])}.")
    L.append(f"Definition eta_middle_src : Q := {q(etas[1])}.")
    L.append(f"Definition eta_end_src : Q := {q(etas[2])}.")
    L.append("(* node transform (x + 1) / 2, weight transform w / 2, and the bound / age expressions were matched structurally *)")
    L.append("Definition einsum_subscripts_src : list string := [" + "; ".join('"%s"%%string' % s for s in subs) + "].")
    L.append(f"Definition stock_balance_raise_threshold_src : Q := {q(max(thr))}.")
    L.append(f"Definition stock_balance_note_threshold_src : Q := {q(min(thr))}.")
    L.append(f"Definition mass_balance_tolerance_factor_src : Q := {q(factors[0])}.")
    L.append(f"Definition check_flows_tolerance_factor_src : Q := {q(factors[1])}.")
    return "\n".join(L) + "\n"


def regenerate():
    try:
        txt = build_text()
    except TieBroken as e:
        return False, f"source facts could not be extracted (tie broken): {e}"
    except Exception as e:  # noqa
        return False, f"translator failed: {e!r}"
    os.makedirs(os.path.dirname(OUT), exist_ok=True)
    old = open(OUT).read() if os.path.exists(OUT) else None
    if old != txt:
        with open(OUT, "w") as f:
            f.write(txt)
    return True, "SourceFacts.v regenerated (%d bytes%s)" % (len(txt), "" if old != txt else ", unchanged")


if __name__ == "__main__":
    print(regenerate())
