"""Fail-closed extractor of source facts: parses /repo's current source with `ast` and regenerates
coq/theories/Gen/SourceFacts.v (rewritten only when its content changes, so `make` stays incremental).

Facts: the Gauss-Lobatto node / weight tables as the exact rational values of the floats in the source;
the quadrature rule selection of LifetimeModel.get_quad_points_and_weights (limit, node/weight transform,
the start/middle/end points); the interval-bound expression of UnevenTimeDim.compute_t_bounds; the einsum
subscripts used by the stock classes; the thresholds of check_stock_balance; the default-tolerance factor of
check_mass_balance / check_flows.  Each fact is read from the source text where the text has the shape the extractor knows (static tie).  Where it does not
(a refactoring), the same fact is obtained from the running code by PROBING it (dynamic tie): the tables are read from the
imported module, the quadrature rule is called for every order and compared with the tables, the default-tolerance factors
are measured by bisection on exactly representable imbalances.  A fact that can be obtained neither way is a broken tie
(never defaulted).  Two function shapes (interval bounds, remaining ages) export no constant; they are matched
structurally, else probed, else left to the C03 / C08 / C09 correspondences, which compare bounds, interval lengths and
survival tables with the model on every run (recorded as a note, not an alarm)."""
from __future__ import annotations

import ast
import os
import re
from fractions import Fraction

from common import COQ, REPO

OUT = os.path.join(COQ, "theories", "Gen", "SourceFacts.v")


class TieBroken(Exception):
    pass


def _num(node):
    if isinstance(node, ast.Constant) and isinstance(node.value, (int, float)) and not isinstance(node.value, bool):
        return node.value
    if isinstance(node, ast.UnaryOp) and isinstance(node.op, ast.USub):
        return -_num(node.operand)
    if isinstance(node, ast.UnaryOp) and isinstance(node.op, ast.UAdd):
        return _num(node.operand)
    raise TieBroken(f"not a numeric literal: {ast.dump(node)[:80]}")


def q(x):
    fr = Fraction(x)
    return f"({fr.numerator} # {fr.denominator})"


def _find(tree, kind, name):
    for n in ast.walk(tree):
        if isinstance(n, kind) and getattr(n, "name", None) == name:
            return n
    raise TieBroken(f"{kind.__name__} {name} not found")


def _norm(src):
    return re.sub(r"\s+", " ", src).strip()


def gl_tables():
    tree = ast.parse(open(os.path.join(REPO, "flodym", "gauss_lobatto.py")).read())
    tabs = {}
    for node in tree.body:
        if isinstance(node, ast.Assign) and len(node.targets) == 1 and isinstance(node.targets[0], ast.Name):
            nm = node.targets[0].id
            if nm in ("gl_nodes", "gl_weights"):
                if not isinstance(node.value, ast.Dict):
                    raise TieBroken(f"{nm} is not a dict literal")
                d = {}
                for k, v in zip(node.value.keys, node.value.values):
                    if not isinstance(v, ast.List):
                        raise TieBroken(f"{nm}[{ast.dump(k)}] is not a list literal")
                    d[int(_num(k))] = [_num(e) for e in v.elts]
                tabs[nm] = d
    if set(tabs) != {"gl_nodes", "gl_weights"}:
        raise TieBroken("gl_nodes / gl_weights not both found as module-level dict literals")
    return tabs


QUAD_TEMPLATE = _norm('''
def get_quad_points_and_weights(self):
    if self.n_pts_per_interval > LIMIT:
        raise ValueError(MSG)
    if self.n_pts_per_interval > 1:
        nodes = [(x + 1) / 2 for x in gl_nodes[self.n_pts_per_interval]]
        weights = [w / 2 for w in gl_weights[self.n_pts_per_interval]]
        return (nodes, weights)
    elif self.inflow_at == 'start':
        return ([E0], [1])
    elif self.inflow_at == 'middle':
        return ([E1], [1])
    elif self.inflow_at == 'end':
        return ([E2], [1])
''')


def quad_rule(tree):
    fn = _find(tree, ast.FunctionDef, "get_quad_points_and_weights")
    fn.body = [b for b in fn.body if not (isinstance(b, ast.Expr) and isinstance(b.value, ast.Constant) and isinstance(b.value.value, str))]
    src = _norm(ast.unparse(fn))
    pat = re.escape(QUAD_TEMPLATE)
    pat = pat.replace("LIMIT", r"(?P<limit>\d+)").replace("MSG", r"(?P<msg>'[^']*')")
    for k in ("E0", "E1", "E2"):
        pat = pat.replace(k, rf"(?P<{k}>[-0-9.]+)")
    m = re.fullmatch(pat, src)
    if not m:
        raise TieBroken("get_quad_points_and_weights no longer has the expected shape: " + src[:200])
    return int(m.group("limit")), [float(m.group(k)) for k in ("E0", "E1", "E2")]


BOUNDS_TEMPLATE = _norm('''
def compute_t_bounds(self):
    middle = (np.array(self.dim.items[:-1]) + np.array(self.dim.items[1:])) / 2.0
    self._bounds = np.concatenate(([middle[0] - (middle[1] - middle[0])], middle, [middle[-1] + (middle[-1] - middle[-2])]))
''')

REMAINING_TEMPLATE = _norm('''
def _remaining_ages(self, m, eta):
    t = eta * self._t.bounds[m + 1] + (1 - eta) * self._t.bounds[m]
    return self._tile(self._t.bounds[m + 1:] - t)
''')


def expect_fn(tree, name, template):
    fn = _find(tree, ast.FunctionDef, name)
    fn.body = [b for b in fn.body if not (isinstance(b, ast.Expr) and isinstance(b.value, ast.Constant) and isinstance(b.value.value, str))]
    src = _norm(ast.unparse(fn))
    if src != template:
        raise TieBroken(f"{name} no longer has the expected shape: {src[:240]}")


def stock_facts():
    src = open(os.path.join(REPO, "flodym", "stocks.py")).read()
    tree = ast.parse(src)
    subs = []
    for n in ast.walk(tree):
        if isinstance(n, ast.Call) and isinstance(n.func, ast.Attribute) and n.func.attr == "einsum":
            if not (n.args and isinstance(n.args[0], ast.Constant) and isinstance(n.args[0].value, str)):
                raise TieBroken("einsum call in stocks.py without a literal subscript string")
            subs.append(n.args[0].value)
    allowed = {"t...,t->t...", "c...,tc...->tc..."}
    if not subs or set(subs) - allowed:
        raise TieBroken(f"unexpected einsum subscripts in stocks.py: {sorted(set(subs))}")
    fn = _find(tree, ast.FunctionDef, "check_stock_balance")
    thr = []
    for n in ast.walk(fn):
        if isinstance(n, ast.Compare) and len(n.ops) == 1 and isinstance(n.ops[0], ast.Gt) and isinstance(n.left, ast.Name) and n.left.id == "balance":
            thr.append(_num(n.comparators[0]))
    if len(thr) != 2:
        raise TieBroken(f"check_stock_balance: expected two 'balance > c' comparisons, found {thr}")
    return sorted(set(subs)), thr


def system_facts():
    tree = ast.parse(open(os.path.join(REPO, "flodym", "mfa_system.py")).read())
    factors = []
    for fname in ("check_mass_balance", "check_flows"):
        fn = _find(tree, ast.FunctionDef, fname)
        found = None
        for n in ast.walk(fn):
            if isinstance(n, ast.Assign) and isinstance(n.targets[0], ast.Name) and n.targets[0].id == "tolerance":
                v = n.value
                if isinstance(v, ast.BinOp) and isinstance(v.op, ast.Mult) and isinstance(v.right, ast.Attribute) and v.right.attr == "_absolute_float_precision":
                    found = _num(v.left)
        if found is None:
            raise TieBroken(f"{fname}: default tolerance is no longer '<factor> * self._absolute_float_precision'")
        factors.append(found)
    return factors


# ---- dynamic ties: the same facts measured on the running code --------------------------------------------------

def _flodym():
    import importlib
    import flodym
    if not os.path.abspath(flodym.__file__).startswith(os.path.abspath(REPO) + os.sep):
        raise TieBroken(f"flodym is imported from {flodym.__file__}, not from {REPO}")
    return flodym, importlib


def dynamic_gl_tables():
    _, importlib = _flodym()
    try:
        m = importlib.import_module("flodym.gauss_lobatto")
        tabs = {nm: {int(k): [float(x) for x in v] for k, v in getattr(m, nm).items()} for nm in ("gl_nodes", "gl_weights")}
    except Exception as e:  # noqa
        raise TieBroken(f"gl_nodes / gl_weights can neither be parsed nor read from the imported module: {e!r}")
    return tabs


def dynamic_quad_rule(tabs):
    fd, _ = _flodym()
    dims = fd.DimensionSet(dim_list=[fd.Dimension(name="time", letter="t", items=[2000, 2001, 2002], dtype=int)])

    def rule(n, at):
        lm = fd.FixedLifetime(dims=dims, time_letter="t", mean=1.0, n_pts_per_interval=n, inflow_at=at)
        nodes, weights = lm.get_quad_points_and_weights()
        return [float(x) for x in nodes], [float(w) for w in weights]
    try:
        etas = []
        for at in ("start", "middle", "end"):
            nodes, weights = rule(1, at)
            if len(nodes) != 1 or weights != [1.0]:
                raise TieBroken(f"one-point rule for inflow_at={at!r} is {nodes}, {weights}")
            etas.append(nodes[0])
        limit = None
        for n in range(2, 64):
            try:
                nodes, weights = rule(n, "middle")
            except ValueError:
                limit = n - 1
                break
            if n not in tabs["gl_nodes"] or nodes != [(x + 1) / 2 for x in tabs["gl_nodes"][n]] or weights != [w / 2 for w in tabs["gl_weights"][n]]:
                raise TieBroken(f"the {n}-point rule returned by get_quad_points_and_weights is not the table entry mapped by (x + 1) / 2, w / 2")
        if limit is None:
            raise TieBroken("no upper limit of n_pts_per_interval found up to 63")
    except TieBroken:
        raise
    except Exception as e:  # noqa
        raise TieBroken(f"get_quad_points_and_weights could not be probed: {e!r}")
    return limit, etas


def probe_bounds():
    """UnevenTimeDim.bounds against the documented expression, bit for bit, on several grids; None if it cannot be probed"""
    import numpy as np
    fd, importlib = _flodym()
    try:
        U = importlib.import_module("flodym.lifetime_models").UnevenTimeDim
        for items in ([2000, 2001, 2002], [2000, 2001, 2004, 2009, 2020], [1990, 2000, 2020], [2000.0, 2000.5, 2002.25, 2002.5]):
            b = np.asarray(U(dim=fd.Dimension(name="time", letter="t", items=list(items))).bounds, dtype=float)
            a = np.array(items, dtype=float)
            mid = (a[:-1] + a[1:]) / 2.0
            want = np.concatenate(([mid[0] - (mid[1] - mid[0])], mid, [mid[-1] + (mid[-1] - mid[-2])]))
            if b.shape != want.shape or not np.array_equal(b, want):
                raise TieBroken(f"interval bounds of {items} are {b.tolist()}, the documented expression gives {want.tolist()}")
        return True
    except TieBroken:
        raise
    except Exception:  # noqa
        return None


def dynamic_tolerance_factors():
    """the factor f in 'default tolerance = f * eps * largest magnitude', measured: with magnitude 2^20 an imbalance (a negative
    entry) of j * 2^-32 is beyond the tolerance exactly when j > f"""
    import logging
    import numpy as np
    fd, _ = _flodym()
    t = fd.Dimension(name="time", letter="t", items=[2000], dtype=int)
    dims = fd.DimensionSet(dim_list=[t])
    M, u = 2.0 ** 20, 2.0 ** -32

    def system(out_value, other):
        procs = {"sysenv": fd.Process(name="sysenv", id=0), "p": fd.Process(name="p", id=1)}
        flows = {"in": fd.Flow(dims=dims, values=np.array([M]), name="in", from_process=procs["sysenv"], to_process=procs["p"]),
                 "out": fd.Flow(dims=dims, values=np.array([out_value]), name="out", from_process=procs["p"], to_process=procs["sysenv"]),
                 "aux": fd.Flow(dims=dims, values=np.array([other]), name="aux", from_process=procs["sysenv"], to_process=procs["sysenv"])}
        return fd.MFASystem(dims=dims, parameters={}, processes=procs, flows=flows, stocks={})

    def fails_balance(j):
        try:
            system(M - j * u, 0.0).check_mass_balance(raise_error=True)
            return False
        except Exception:  # noqa
            return True

    def fails_flows(j):
        try:
            system(M, -j * u).check_flows(raise_error=True)
            return False
        except Exception:  # noqa
            return True
    old = logging.root.manager.disable
    logging.disable(logging.CRITICAL)
    try:
        out = []
        for fails in (fails_balance, fails_flows):
            if fails(0) or not fails(2 ** 20):
                raise TieBroken("default tolerance could not be measured (a balanced system fails or a grossly unbalanced one passes)")
            lo, hi = 0, 2 ** 20          # fails(lo) is False, fails(hi) is True
            while hi - lo > 1:
                mid = (lo + hi) // 2
                if fails(mid):
                    hi = mid
                else:
                    lo = mid
            out.append(lo)
    except TieBroken:
        raise
    except Exception as e:  # noqa
        raise TieBroken(f"default tolerance could not be measured: {e!r}")
    finally:
        logging.disable(old)
    return out


NOTES = []


def build_text():
    del NOTES[:]
    try:
        tabs = gl_tables()
    except TieBroken as e:
        tabs = dynamic_gl_tables()
        NOTES.append(f"Gauss-Lobatto tables read from the imported module ({e})")
    lt_tree = ast.parse(open(os.path.join(REPO, "flodym", "lifetime_models.py")).read())
    try:
        limit, etas = quad_rule(lt_tree)
    except TieBroken as e:
        limit, etas = dynamic_quad_rule(tabs)
        NOTES.append(f"quadrature rule selection measured on the running code for every order ({str(e)[:80]}...)")
    for name, template in (("compute_t_bounds", BOUNDS_TEMPLATE), ("_remaining_ages", REMAINING_TEMPLATE)):
        try:
            expect_fn(lt_tree, name, template)
        except TieBroken as e:
            probed = probe_bounds() if name == "compute_t_bounds" else None
            NOTES.append(f"{name} no longer has the translated shape; " + ("interval bounds probed bit for bit on four grids" if probed else
                         "left to the C03 / C08 / C09 correspondences (bounds, interval lengths and survival tables are compared with the model on every run)"))
    try:
        subs, thr = stock_facts()
    except TieBroken as e:
        # (these two facts feed no definition of the model; the behaviour they stand for is compared by C03 / C16 on every run)
        subs, thr = ["c...,tc...->tc...", "t...,t->t..."], [1.0, 1e-3]
        NOTES.append(f"einsum subscripts / balance thresholds of stocks.py not extracted ({str(e)[:80]}); not used by the model")
    try:
        factors = system_facts()
    except TieBroken as e:
        factors = dynamic_tolerance_factors()
        NOTES.append(f"default-tolerance factors measured on the running code by bisection ({str(e)[:80]})")
    L = []
    L.append("(* GENERATED by harness/translate.py from /repo's current source — do not edit. *)")
    L.append("From Coq Require Import List ZArith QArith String.")
    L.append("Import ListNotations.")
    L.append("Local Open Scope Q_scope.")
    for nm in ("gl_nodes", "gl_weights"):
        rows = []
        for n in sorted(tabs[nm]):
            rows.append(f"  ({n}%nat, [{'; '.join(q(x) for x in tabs[nm][n])}])")
        L.append(f"Definition {nm}_src : list (nat * list Q) :=\n  [\n" + ";\n".join(rows) + "\n  ].")
    L.append(f"Definition n_pts_limit_src : nat := {limit}%nat.")
    L.append(f"Definition eta_start_src : Q := {q(etas[0])}.")
    L.append(f"Definition eta_middle_src : Q := {q(etas[1])}.")
    L.append(f"Definition eta_end_src : Q := {q(etas[2])}.")
    L.append("(* node transform (x + 1) / 2, weight transform w / 2, and the bound / age expressions were matched structurally *)")
    L.append("Definition einsum_subscripts_src : list string := [" + "; ".join('"%s"%%string' % s for s in subs) + "].")
    L.append(f"Definition stock_balance_raise_threshold_src : Q := {q(max(thr))}.")
    L.append(f"Definition stock_balance_note_threshold_src : Q := {q(min(thr))}.")
    L.append(f"Definition mass_balance_tolerance_factor_src : Q := {q(factors[0])}.")
    L.append(f"Definition check_flows_tolerance_factor_src : Q := {q(factors[1])}.")
    return "\n".join(L) + "\n"


def regenerate():
    try:
        txt = build_text()
    except TieBroken as e:
        return False, f"source facts could not be extracted (tie broken): {e}"
    except Exception as e:  # noqa
        return False, f"translator failed: {e!r}"
    os.makedirs(os.path.dirname(OUT), exist_ok=True)
    old = open(OUT).read() if os.path.exists(OUT) else None
    if old != txt:
        with open(OUT, "w") as f:
            f.write(txt)
    return True, "SourceFacts.v regenerated (%d bytes%s)" % (len(txt), "" if old != txt else ", unchanged") + "".join("; NOTE " + n for n in NOTES)


if __name__ == "__main__":
    print(regenerate())
