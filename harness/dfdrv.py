"""DataFrames: building every supported layout from logical rows, what the import pipeline sees, reading to_df
output back into logical rows, Coq emission (Corr.DFC)."""
from fractions import Fraction
import io
import itertools
import math

import numpy as np
import pandas as pd

from arrays import CODES, NAMECODES, cq_dimset, cq_farr, observe_values
from common import cq_bool, cq_list, cq_nat, cq_opt, cq_Q

# a dimension description: dict(letter, name, items, dtype in {"int","str",None})


def fl_dim_t(d):
    import flodym as fd
    dt = {"int": int, "str": str, None: None}[d.get("dtype")]
    return fd.Dimension(name=d["name"], letter=d["letter"], items=list(d["items"]), dtype=dt)


def fl_dims_t(ds):
    import flodym as fd
    return fd.DimensionSet(dim_list=[fl_dim_t(d) for d in ds])


DIMPOOL = {
    "t": dict(letter="t", name="time", items=[2000, 2005, 2010], dtype="int"),
    "T": dict(letter="t", name="time", items=[1990, 2000], dtype=None),          # untyped integer items
    "r": dict(letter="r", name="region", items=["EU", "US", "CN"], dtype="str"),
    "m": dict(letter="m", name="material", items=["steel", "wood"], dtype=None),
    "s": dict(letter="s", name="scenario", items=["base"], dtype="str"),         # single item
    "y": dict(letter="y", name="vintage", items=[2020], dtype="int"),            # single integer item
    "g": dict(letter="g", name="good", items=["car", "bus", "bike", "van"], dtype="str"),
    # the first and the last year that an unnamed integer index may hold to be taken for years (1700 .. 2300)
    "Y": dict(letter="t", name="time", items=[1700, 2000, 2300], dtype="int"),
    "A": dict(letter="a", name="age", items=[0, 1, 2], dtype="int"),       # small integers: values can coincide with items
    "Z": dict(letter="z", name="zero class", items=[0], dtype="int"),     # a single item that is at the same time a plausible value
    # text items that look like numbers: CSV text brings them back as integers, the declared type turns them into text again
    "N": dict(letter="n", name="size class", items=["10", "20", "35"], dtype="str"),
}


def all_keys(ds):
    return list(itertools.product(*[d["items"] for d in ds]))


def full_rows(ds, values):
    return [[list(k), v] for k, v in zip(all_keys(ds), values)]


def unknown_item(d, j=0):
    if all(isinstance(i, int) for i in d["items"]):
        return 1800 + j
    return f"zz{j}"


# ---- layouts ------------------------------------------------------------------------------------------
# layout = dict(where="index"|"columns", wide=None|dim position, header="names"|"letters"|"mixed"|"items",
#               omit_single=bool, value_name=str, row_perm=seed|None, col_perm=seed|None, csv=bool)


def colname(d, layout, pos):
    h = layout["header"]
    if h == "names":
        return d["name"]
    if h == "letters":
        return d["letter"]
    if h == "mixed":
        return d["name"] if pos % 2 else d["letter"]
    return f"c{pos}"      # recognised through its items only


def build_df(ds, rows, layout, rng=None):
    """returns (DataFrame, pipeline_rows, omitted_multi, unmatched)"""
    import random
    n = len(ds)
    wide = layout.get("wide")
    keep = [i for i in range(n) if not (layout.get("omit_single") and len(ds[i]["items"]) == 1 and i != wide)]
    omit = layout.get("omit_dims", [])
    keep = [i for i in keep if i not in omit]
    omitted_multi = any(len(ds[i]["items"]) > 1 for i in range(n) if i not in keep)
    cols = {i: colname(ds[i], layout, i) for i in keep}
    vname = layout.get("value_name", "value")
    rows = [list(r) for r in rows]
    if layout.get("row_perm") is not None:
        random.Random(layout["row_perm"]).shuffle(rows)
    unmatched = False
    if wide is None:
        # (labels_as_str: the labels of integer-typed dimensions stand in the table as text, as after reading an untyped file)
        as_str = lambda i, x: str(x) if layout.get("labels_as_str") and ds[i].get("dtype") == "int" else x
        data = {cols[i]: [as_str(i, r[0][i]) for r in rows] for i in keep}
        data[vname] = [np.nan if r[1] is None else float(r[1]) for r in rows]
        for cname, kind in layout.get("extra_value_cols", []):
            # further columns that are neither a dimension nor an item: empty throughout, a copy, or other numbers
            data[cname] = [np.nan if kind == "nan" else (v if kind == "copy" else (v if isinstance(v, float) and v != v else 2 * v + 1)) for v in data[vname]]
            unmatched = True
        df = pd.DataFrame(data)
        idx_cols = [cols[i] for i in keep]
        pipeline = [[list(r[0]), r[1]] for r in rows]
    else:
        others = [i for i in keep if i != wide]
        witems = list(layout.get("wide_items", ds[wide]["items"]))
        lines = []   # [other labels tuple, {item: value}]
        for labs, v in rows:
            ok = tuple(labs[i] for i in others)
            it = labs[wide]
            for ln in lines:
                if ln[0] == ok and it not in ln[1]:
                    ln[1][it] = v
                    break
            else:
                lines.append([ok, {it: v}])
        extra_items = [it for ln in lines for it in ln[1] if it not in witems]
        for it in extra_items:
            if it not in witems:
                witems.append(it)
        data = {cols[i]: [ln[0][others.index(i)] for ln in lines] for i in others}
        for it in witems:
            data[it] = [np.nan if ln[1].get(it) is None else float(ln[1][it]) for ln in lines]
        df = pd.DataFrame(data)
        idx_cols = [cols[i] for i in others]
        differs = set(map(str, witems)) != set(map(str, ds[wide]["items"]))
        unmatched = differs and len(witems) > 1
        if differs and len(witems) <= 1:
            # a single left-over column is taken for the value column of a long table that lacks this dimension
            omitted_multi = omitted_multi or len(ds[wide]["items"]) > 1
        pipeline = []
        for it in ds[wide]["items"]:
            for ln in lines:
                labs = [None] * n
                for i in others:
                    labs[i] = ln[0][others.index(i)]
                labs[wide] = it
                pipeline.append([labs, ln[1].get(it)])
    for r in pipeline:     # dimensions that were left out of the table are filled in by the pipeline (single item)
        for i in range(n):
            if i not in keep:
                r[0][i] = ds[i]["items"][0]
    if layout.get("col_perm") is not None:
        c = list(df.columns)
        random.Random(layout["col_perm"]).shuffle(c)
        df = df[c]
    if layout.get("row_labels") and not (layout["where"] == "index" and idx_cols):
        # the rows keep labels of their own (cut out of a longer table, numbered from 1): not 0..n-1, not years
        n_ = len(df)
        rl = layout["row_labels"]
        # "pairs" / "same": labels that repeat (a table put together from pieces that each kept their own numbering)
        df.index = (list(range(1, n_ + 1)) if rl == "from1" else [(i + 1) // 2 for i in range(n_)] if rl == "pairs"
                    else [5] * n_ if rl == "same" else list(range(7, 7 + 3 * n_, 3)))
    if layout["where"] == "index" and idx_cols:
        df = df.set_index(idx_cols)
        if layout["header"] == "items":
            df.index.names = [None] * len(idx_cols)
    if layout.get("csv"):
        buf = io.StringIO()
        df.to_csv(buf, index=(layout["where"] == "index" and bool(idx_cols)))
        buf.seek(0)
        df = pd.read_csv(buf)
        if layout["where"] == "index" and layout["header"] == "items":
            df = df.rename(columns={c: f"u{j}" for j, c in enumerate(df.columns) if str(c).startswith("Unnamed")})
    return df, pipeline, omitted_multi, unmatched


def rows_from_to_df(ds, df, index, dim_to_columns):
    """read the output of to_df back into logical rows [(labels in array dim order), value] in row-major order"""
    names = [d["name"] for d in ds]
    d2 = df.reset_index() if index else df.copy()
    if dim_to_columns is not None:
        wname = dim_to_columns if dim_to_columns in names else next(d["name"] for d in ds if d["letter"] == dim_to_columns)
        others = [n for n in names if n != wname]
        if others:
            d2 = d2.melt(id_vars=others, var_name=wname, value_name="value")
        else:
            d2 = d2.melt(var_name=wname, value_name="value") if "index" not in d2.columns else d2.drop(columns=["index"]).melt(var_name=wname, value_name="value")
    out = []
    cols = {n: [x.item() if isinstance(x, np.generic) else x for x in d2[n].tolist()] for n in names}
    vals = d2["value"].tolist()
    for j, v in enumerate(vals):
        labs = [cols[n][j] for n in names]
        out.append([labs, None if (isinstance(v, float) and math.isnan(v)) else Fraction(float(v))])
    pos = lambda labs: tuple(d["items"].index(l) if l in d["items"] else 10 ** 6 for d, l in zip(ds, labs))
    out.sort(key=lambda r: pos(r[0]))
    return out


# ---- Coq emission ------------------------------------------------------------------------------------

def cq_dims_t(ds):
    return cq_dimset([dict(letter=d["letter"], name=d["name"], items=d["items"]) for d in ds])


def cq_rowQ(r):
    labs = cq_list([cq_nat(CODES(x)) for x in r[0]])
    v = "None" if r[1] is None else f"(Some {cq_Q(Fraction(r[1]))})"
    return f"(mk_row Qc {labs} {v})"


def cq_import_case(ds, pipeline, om, um, am, ae, obs):
    if obs["kind"] == "err":
        exp = "Err"
    else:
        exp = "(Ok " + cq_list([cq_opt(None if v is None else cq_Q(Fraction(v[0], v[1]))) for v in obs["value"]]) + ")"
    return (f"(CImport {cq_dims_t(ds)} {cq_bool(om)} {cq_bool(um)} {cq_bool(am)} {cq_bool(ae)} "
            f"{cq_list([cq_rowQ(r) for r in pipeline])} {exp})")


def cq_export_case(ds, values, sparse, rows):
    a = f"(mk_farr {cq_dims_t(ds)} {cq_list([cq_Q(Fraction(v)) for v in values])})"
    rs = cq_list([f"({cq_list([cq_nat(CODES(x)) for x in r[0]])}, {'None' if r[1] is None else '(Some ' + cq_Q(r[1]) + ')'})" for r in rows])
    return f"(CExport {a} {cq_bool(sparse)} {rs})"


# ---- the table as pandas holds it, for the model of the layout recognition (Corr.DFC.CDetect) -----------------------------

class EqCodes:
    """codes with Python's own equality: 2, 2.0 and numpy's 2 are one label (that is how the importer's set comparisons see them)"""

    def __init__(self):
        self.tab = {}

    def __call__(self, x):
        if isinstance(x, np.generic):
            x = x.item()
        if isinstance(x, float) and math.isnan(x):
            x = "<NaN>"
        if x not in self.tab:
            self.tab[x] = len(self.tab)
        return self.tab[x]


EQ = EqCodes()


def cq_ent(x):
    if isinstance(x, np.generic):
        x = x.item()
    try:
        ei = f"(Some {cq_nat(EQ(int(x)))})"
    except (ValueError, TypeError, OverflowError):
        ei = "None"
    es = EQ(str(x))
    if isinstance(x, bool):
        val = "VBad"
    else:
        try:
            fv = float(x)
            val = "VNaN" if math.isnan(fv) else f"(VNum {cq_Q(Fraction(fv))})"
        except (ValueError, TypeError):
            val = "VBad"
    return f"(mk_ent {cq_nat(EQ(x))} {ei} {cq_nat(es)} {val})"


def cq_tdim(d):
    from common import letter_code
    items = cq_list([cq_nat(EQ(i)) for i in d["items"]])
    ty = {"int": "TInt", "str": "TStr", None: "TNone"}[d.get("dtype")]
    dim = f"(mk_dim {cq_nat(letter_code(d['letter']))} {cq_nat(NAMECODES(d['name']))} {items})"
    return f"(mk_tdim {dim} {cq_nat(EQ(d['name']))} {cq_nat(EQ(d['letter']))} {ty})"


def cq_table(df):
    """index levels (name, entries, the label reset_index gives), the integer range of a plain unnamed int64 index, columns"""
    idx = df.index
    nlev = idx.nlevels
    reset_labels = list(df.reset_index().columns[:nlev])
    levels = []
    for k in range(nlev):
        name = idx.names[k]
        entries = list(idx.get_level_values(k))
        nm = "None" if name is None else f"(Some {cq_ent(name)})"
        levels.append(f"(mk_level {nm} {cq_list([cq_ent(x) for x in entries])} {cq_ent(reset_labels[k])})")
    rng = "None"
    if nlev == 1 and idx.names[0] is None and idx.dtype == np.int64 and len(idx) > 0:
        rng = f"(Some ({int(idx.min())}%Z, {int(idx.max())}%Z))"
    cols = [f"({cq_ent(c)}, {cq_list([cq_ent(x) for x in df[c].tolist()])})" for c in df.columns]
    return f"(mk_table {cq_list(levels)} {rng} {cq_list(cols)})"


def cq_detect_case(ds, df, am, ae, obs):
    if obs["kind"] == "err":
        exp = "Err"
    else:
        exp = "(Ok " + cq_list([cq_opt(None if v is None else cq_Q(Fraction(v[0], v[1]))) for v in obs["value"]]) + ")"
    return f"(CDetect {cq_list([cq_tdim(d) for d in ds])} {cq_bool(am)} {cq_bool(ae)} {cq_table(df)} {exp})"
