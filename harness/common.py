"""Shared machinery of the flodym verification harness.

* environment pinning (flodym must come from /repo's working tree),
* emission of Coq terms, sharded `coqc` runs with verdicts read back,
* build of the Coq development, collection of proof obligations (Print Assumptions),
* evidence / replay / known-findings plumbing.
"""
from __future__ import annotations

import hashlib
import json
import os
import random
import re
import shutil
import subprocess
import sys
import tempfile
import time
from fractions import Fraction

VERIF = os.path.dirname(os.path.dirname(os.path.abspath(__file__)))
REPO = os.environ.get("FLODYM_REPO", "/repo")
COQ = os.path.join(VERIF, "coq")
NPROC = max(1, min(16, os.cpu_count() or 1))

# ---------------------------------------------------------------------------------------------
# environment


def pin_environment():
    """Make sure the implementation under test is /repo's working tree."""
    if sys.path[0] != REPO:
        sys.path.insert(0, REPO)
    os.environ.setdefault("MPLBACKEND", "Agg")
    import warnings

    warnings.simplefilter("ignore")
    import numpy as np

    np.seterr(all="ignore")
    import flodym  # noqa

    assert os.path.abspath(flodym.__file__).startswith(os.path.abspath(REPO) + os.sep), (
        f"flodym imported from {flodym.__file__}, expected under {REPO}"
    )
    import logging

    logging.disable(logging.CRITICAL)
    return flodym


def seed_from_env(default=0):
    try:
        return int(os.environ.get("VERIF_SEED", default))
    except ValueError:
        return default


# ---------------------------------------------------------------------------------------------
# Coq term emission


def cq_nat(n):
    return f"{int(n)}%nat"


def cq_Z(n):
    n = int(n)
    return f"({n})%Z"


def cq_bool(b):
    return "true" if b else "false"


def cq_list(xs):
    return "[" + "; ".join(xs) + "]"


def cq_pair(a, b):
    return f"({a}, {b})"


def cq_opt(x):
    return "None" if x is None else f"(Some {x})"


def cq_Q(fr):
    """Fraction -> Qc term (normalised by Q2Qc inside Coq)."""
    fr = Fraction(fr)
    return f"(q ({fr.numerator}) {fr.denominator})"


def to_fraction(x):
    """exact rational value of a finite float / int; None for nan / inf"""
    import math

    if isinstance(x, Fraction):
        return x
    x = float(x)
    if math.isnan(x) or math.isinf(x):
        return None
    return Fraction(x)


class Codes:
    """stable coding of Python labels (items, names) as naturals"""

    def __init__(self):
        self.tab = {}

    def __call__(self, x):
        k = (type(x).__name__, x if not isinstance(x, float) else repr(x))
        try:
            import numpy as np

            if isinstance(x, np.generic):
                x = x.item()
                k = (type(x).__name__, x)
        except Exception:
            pass
        if k not in self.tab:
            self.tab[k] = len(self.tab)
        return self.tab[k]


def letter_code(l):
    return ord(l)


# ---------------------------------------------------------------------------------------------
# Coq build and obligations

FORBIDDEN = re.compile(
    r"\b(Admitted|admit|Axiom|Parameter|Conjecture|Unset Guard|bypass_check|type-in-type|"
    r"impredicative-set|Admit Obligations)\b"
)


def run(cmd, cwd=None, timeout=3000, env=None):
    p = subprocess.run(
        cmd, cwd=cwd, shell=isinstance(cmd, str), capture_output=True, text=True, timeout=timeout, env=env
    )
    return p.returncode, p.stdout + p.stderr


def scan_forbidden():
    """grep the development for declarations that would widen the trusted base"""
    hits = []
    for root, _, files in os.walk(os.path.join(COQ, "theories")):
        for f in files:
            if f.endswith(".v"):
                p = os.path.join(root, f)
                txt = open(p).read()
                txt_nc = re.sub(r"\(\*.*?\*\)", "", txt, flags=re.S)
                for m in FORBIDDEN.finditer(txt_nc):
                    hits.append(f"{os.path.relpath(p, COQ)}: {m.group(0)}")
    proj = open(os.path.join(COQ, "_CoqProject")).read()
    for bad in ("-type-in-type", "-impredicative-set", "-vos", "-vok"):
        if bad in proj:
            hits.append(f"_CoqProject: {bad}")
    return hits


def build_coq(log=None):
    """(re)generate source facts, then a full .vo build (incremental). Returns (ok, output)."""
    t0 = time.time()
    try:
        from translate import regenerate

        tr_ok, tr_msg = regenerate()
    except Exception as e:  # translator failed closed
        tr_ok, tr_msg = False, f"translator crashed: {e!r}"
    if not os.path.exists(os.path.join(COQ, "Makefile")):
        rc, out = run("coq_makefile -f _CoqProject -o Makefile", cwd=COQ, timeout=120)
        if rc != 0:
            return False, out, tr_ok, tr_msg
    rc, out = run(f"timeout 3000 make -j{NPROC}", cwd=COQ, timeout=3100)
    return rc == 0, out + f"\n[build {time.time()-t0:.1f}s]", tr_ok, tr_msg


ASSUM_RE = re.compile(r"^(Closed under the global context|Axioms:)", re.M)


def compile_props(prop_id):
    """Compile Props/<id>.v and collect its theorems and their Print Assumptions blocks.

    Returns dict(ok, theorems=[names], axioms=sorted set, output, n_closed)"""
    src = os.path.join(COQ, "theories", "Props", f"{prop_id}.v")
    if not os.path.exists(src):
        return dict(ok=False, theorems=[], axioms=[], output=f"missing {src}", blocks=0)
    txt = open(src).read()
    txt_nc = re.sub(r"\(\*.*?\*\)", "", txt, flags=re.S)
    theorems = re.findall(r"^\s*(?:Theorem|Lemma|Corollary|Example)\s+([A-Za-z0-9_']+)", txt_nc, re.M)
    printed = re.findall(r"^\s*Print Assumptions\s+([A-Za-z0-9_']+)\s*\.", txt_nc, re.M)
    rc, out = run(
        ["timeout", "600", "coqc", "-Q", os.path.join(COQ, "theories"), "Flodym", src],
        cwd=COQ,
        timeout=700,
    )
    blocks = ASSUM_RE.findall(out)
    axioms = set()
    # axiom blocks: "Axioms:\nname : type\n  continued\nname2 : ..."
    for blk in re.split(r"^(?=Closed under the global context|Axioms:)", out, flags=re.M):
        if blk.startswith("Axioms:"):
            for line in blk.splitlines()[1:]:
                m = re.match(r"^([A-Za-z_][A-Za-z0-9_.']*)\s*:", line)
                if m:
                    axioms.add(m.group(1))
    ok = rc == 0 and len(blocks) == len(printed) and set(printed) >= set(
        t for t in theorems if not t.startswith("ex_")
    )
    return dict(
        ok=ok,
        theorems=theorems,
        printed=printed,
        axioms=sorted(axioms),
        output=out,
        blocks=len(blocks),
        rc=rc,
    )


ALLOWED_AXIOMS = {
    "ClassicalDedekindReals.sig_forall_dec",
    "ClassicalDedekindReals.sig_not_dec",
    "FunctionalExtensionality.functional_extensionality_dep",
    "Classical_Prop.classic",
}

# ---------------------------------------------------------------------------------------------
# running the model on cases inside Coq

RESULT_RE = re.compile(r"=\s*\[([^\]]*)\]\s*:\s*list nat", re.S)


def run_coq_cases(module, case_terms, header="", shard=250, check_fn="check", case_type="case"):
    """case_terms: list of Coq terms of type `case`.  Evaluates `check` on every case inside Coq
    (vm_compute) and returns (list of failing indices, infra_error or None)."""
    if not case_terms:
        return [], None
    tmp = tempfile.mkdtemp(prefix="flodym-verif-")
    try:
        shards = [case_terms[i : i + shard] for i in range(0, len(case_terms), shard)]
        files = []
        for k, sh in enumerate(shards):
            fn = os.path.join(tmp, f"cases_{k}.v")
            with open(fn, "w") as f:
                f.write("From Coq Require Import List ZArith QArith Qcanon.\nImport ListNotations.\n")
                f.write(f"From Flodym Require Import {module}.\n{header}\n")
                f.write(f"Definition cases : list {case_type} :=\n  [ ")
                f.write("\n  ; ".join(sh))
                f.write(" ].\n")
                f.write(
                    "Definition bad : list nat := map fst (filter (fun p => negb (snd p)) "
                    f"(combine (seq 0 (length cases)) (map {check_fn} cases))).\n"
                )
                f.write("Eval vm_compute in bad.\n")
            files.append(fn)
        procs = []
        failing = []
        err = None
        # run in parallel, at most NPROC at a time
        pending = list(enumerate(files))
        running = []
        outs = {}
        while pending or running:
            while pending and len(running) < NPROC:
                k, fn = pending.pop(0)
                p = subprocess.Popen(
                    ["timeout", "900", "coqc", "-Q", os.path.join(COQ, "theories"), "Flodym", fn],
                    cwd=tmp,
                    stdout=subprocess.PIPE,
                    stderr=subprocess.STDOUT,
                    text=True,
                )
                running.append((k, p))
            still = []
            for k, p in running:
                if p.poll() is None:
                    still.append((k, p))
                else:
                    outs[k] = (p.returncode, p.stdout.read())
            running = still
            if running:
                time.sleep(0.05)
        for k in range(len(files)):
            rc, out = outs[k]
            m = RESULT_RE.search(out)
            if rc != 0 or not m:
                err = f"coqc failed on shard {k} (rc={rc}): {out[-1500:]}"
                # keep the offending file for debugging
                keep = os.path.join(VERIF, "replays", f"_failed_shard_{module.split('.')[-1]}.v")
                try:
                    shutil.copy(files[k], keep)
                except Exception:
                    pass
                continue
            body = m.group(1).strip()
            if body:
                for tok in body.split(";"):
                    tok = tok.strip().replace("%nat", "")
                    if tok:
                        failing.append(k * shard + int(tok))
        return sorted(failing), err
    finally:
        shutil.rmtree(tmp, ignore_errors=True)


# ---------------------------------------------------------------------------------------------
# evidence, replays, known findings


def case_hash(case):
    return hashlib.sha1(json.dumps(case, sort_keys=True, default=str).encode()).hexdigest()


def write_replay(prop_id, payload):
    os.makedirs(os.path.join(VERIF, "replays"), exist_ok=True)
    h = case_hash(payload)[:12]
    path = os.path.join(VERIF, "replays", f"{prop_id}-{h}.json")
    with open(path, "w") as f:
        json.dump(payload, f, indent=1, default=str)
    return path


def load_known_findings(prop_id):
    path = os.path.join(VERIF, "KNOWN_FINDINGS.jsonl")
    out = []
    if os.path.exists(path):
        for line in open(path):
            line = line.strip()
            if not line or line.startswith("#"):
                continue
            d = json.loads(line)
            if d.get("property") == prop_id:
                out.append(d)
    return out


def write_evidence(prop_id, tier, seed, coverage, assumptions, wall_s, violations):
    os.makedirs(os.path.join(VERIF, "evidence"), exist_ok=True)
    ev = dict(
        property_id=prop_id,
        tier=tier,
        seed=seed,
        level="proof",
        coverage=coverage,
        assumptions=assumptions,
        wall_s=round(wall_s, 2),
        violations=violations,
    )
    with open(os.path.join(VERIF, "evidence", f"{prop_id}.json"), "w") as f:
        json.dump(ev, f, indent=1, default=str)
    return ev
