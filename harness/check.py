#!/venv/bin/python
"""Entry point:  check.py <Cxx> [--tier quick|thorough]   |   check.py --replay <path>

Decision procedure (DESIGN.md section 5):
  1. regenerate source facts, full `make` of the Coq development, compile Props/<id>.v and collect
     every `Print Assumptions` (the proof obligations), scan for forbidden declarations;
  2. run corpus + generated cases on the implementation (/repo working tree) and on the Coq model
     (`vm_compute`, comparison inside Coq) — the correspondence;
  3. HOLDS iff all obligations are discharged and the correspondence agrees on every case;
  4. otherwise search for a failing input with the property's own oracle (independent of the model);
     VIOLATION with that input as replay, or `no-failing-input-found`.
"""
from __future__ import annotations

import argparse
import importlib
import json
import os
import random
import sys
import time
import traceback

HERE = os.path.dirname(os.path.abspath(__file__))
sys.path.insert(0, HERE)
os.environ.setdefault("PYTHONHASHSEED", "0")

import common  # noqa: E402
from common import VERIF  # noqa: E402


def load_prop(pid):
    return importlib.import_module(f"props.{pid.lower()}")


def load_corpus(pid):
    d = os.path.join(VERIF, "corpus", pid)
    out = []
    if os.path.isdir(d):
        for fn in sorted(os.listdir(d)):
            if fn.endswith(".json"):
                c = json.load(open(os.path.join(d, fn)))
                c.setdefault("stream", "corpus")
                c["_corpus"] = fn
                out.append(c)
    return out


def match_known(mod, case, obs, msg, findings):
    for f in findings:
        if f.get("status") != "open":
            continue
        sig = getattr(mod, "SIGNATURES", {}).get(f.get("signature"))
        if sig is not None:
            try:
                if sig(case, obs, msg):
                    return f
            except Exception:
                pass
    return None


def replay(path):
    payload = json.load(open(path))
    pid = payload["property"]
    common.pin_environment()
    mod = load_prop(pid)
    case = payload.get("case")
    if case is None:
        print(f"replay {path}: no concrete input ({payload.get('kind')}): {payload.get('what')}")
        return 1
    obs = mod.run_impl(case)
    msg = mod.oracle(case, obs)
    if msg:
        print(f"replay: property {pid} FAILS on this input: {msg}")
        print(f"VIOLATION property={pid} replay={path}")
        return 1
    print(f"replay: property {pid} holds on this input (observed: {json.dumps(obs, default=str)[:300]})")
    return 0


def main():
    ap = argparse.ArgumentParser()
    ap.add_argument("prop", nargs="?")
    ap.add_argument("--tier", default=os.environ.get("VERIF_TIER", "quick"))
    ap.add_argument("--replay")
    ap.add_argument("--no-build", action="store_true")
    args = ap.parse_args()
    if args.replay:
        sys.exit(replay(args.replay))
    pid = args.prop
    tier = args.tier if args.tier in ("quick", "thorough") else "quick"
    seed = common.seed_from_env(0)
    t0 = time.time()
    rng = random.Random(seed * 1000003 + sum(map(ord, pid)))
    violations = []  # (message, replay path)
    known_lines = []
    infra = []

    # ---- 1. build + obligations -------------------------------------------------------------
    ok, out, tr_ok, tr_msg = common.build_coq()
    build_failed = not ok
    forb = common.scan_forbidden()
    props = common.compile_props(pid) if ok else dict(ok=False, theorems=[], axioms=[], output=out, blocks=0, printed=[])
    bad_axioms = [a for a in props.get("axioms", []) if a not in common.ALLOWED_AXIOMS]
    obligations = len(props.get("printed", []))
    discharged = props.get("blocks", 0) if props.get("ok") else 0
    proof_ok = ok and props.get("ok") and not forb and not bad_axioms and tr_ok

    common.pin_environment()
    mod = load_prop(pid)
    findings = common.load_known_findings(pid)

    # ---- 2. correspondence ------------------------------------------------------------------
    cases = load_corpus(pid) + mod.generate(tier, rng)
    if tier == "thorough":
        # deeper exploration: generators that draw from the seeded PRNG are run several more rounds (the PRNG state carries
        # on, so every round draws new systems / values / histories); cases already present are dropped
        seen = {common.case_hash(c) for c in cases}
        for _ in range(int(getattr(mod, "THOROUGH_ROUNDS", 1)) - 1):
            for c in mod.generate(tier, rng):
                h = common.case_hash(c)
                if h not in seen:
                    seen.add(h)
                    cases.append(c)
    observations = []
    for c in cases:
        try:
            observations.append(mod.run_impl(c))
        except Exception as e:  # harness-level failure on this case
            observations.append(dict(kind="harness-error", exc=repr(e), tb=traceback.format_exc()[-800:]))
    harness_errors = [i for i, o in enumerate(observations) if o.get("kind") == "harness-error"]

    # the oracle judges the implementation against the property text (independent of the model)
    oracle_fail = {}
    for i, (c, o) in enumerate(zip(cases, observations)):
        if o.get("kind") == "harness-error":
            continue
        try:
            m = mod.oracle(c, o)
        except Exception as e:
            m = None
            infra.append(f"oracle crashed on case {i}: {e!r}")
        if m:
            oracle_fail[i] = m

    corr_fail, corr_err = [], None
    emit_idx = [i for i, o in enumerate(observations) if o.get("kind") != "harness-error" and cases[i].get("coq", True)]
    if ok:
        try:
            terms = [mod.to_coq(cases[i], observations[i]) for i in emit_idx]
            fails, corr_err = common.run_coq_cases(
                mod.COQ_MODULE, terms, header=getattr(mod, "COQ_HEADER", ""), shard=getattr(mod, "SHARD", 250),
                check_fn=getattr(mod, "COQ_CHECK", "check"), case_type=getattr(mod, "COQ_CASE_TYPE", "case")
            )
            corr_fail = [emit_idx[k] for k in fails]
        except Exception as e:
            corr_err = f"emission/evaluation failed: {e!r}\n{traceback.format_exc()[-1500:]}"
    if corr_err:
        infra.append(corr_err)
    for i in harness_errors:
        infra.append(f"harness error on case {i}: {observations[i]['exc']}")

    # ---- 3./4. decision ---------------------------------------------------------------------
    def strip(c):
        return {k: v for k, v in c.items() if not k.startswith("_")}

    reported = set()
    for i, msg in sorted(oracle_fail.items()):
        kf = match_known(mod, cases[i], observations[i], msg, findings)
        if kf is not None:
            line = f"KNOWN-FINDING: property={pid} {kf.get('what', kf.get('signature'))}"
            if line not in known_lines:
                known_lines.append(line)
            continue
        key = getattr(mod, "failure_key", lambda c, o, m: m.split(":")[0])(cases[i], observations[i], msg)
        if key in reported or len(reported) >= 3:
            continue
        reported.add(key)
        path = common.write_replay(pid, dict(property=pid, kind="failing-input", case=strip(cases[i]),
                                             observed=observations[i], what=msg,
                                             model_agrees=(i not in corr_fail)))
        violations.append((msg, path, ""))
    unexplained = [i for i in corr_fail if i not in oracle_fail]
    if unexplained and not violations:
        i = unexplained[0]
        path = common.write_replay(pid, dict(property=pid, kind="correspondence-broken",
                                             correspondence=f"{mod.COQ_MODULE}.check", case=strip(cases[i]),
                                             observed=observations[i], n_disagreements=len(unexplained),
                                             what="model and implementation disagree; oracle accepts the implementation's behaviour on every generated case"))
        violations.append(("correspondence broken", path, " no-failing-input-found"))
    if not proof_ok and not violations:
        what = []
        if build_failed:
            what.append("Coq build failed: " + out[-1200:])
        if not tr_ok:
            what.append("source-facts translator: " + tr_msg)
        if ok and not props.get("ok"):
            what.append("Props/%s.v does not check: %s" % (pid, props.get("output", "")[-1200:]))
        if forb:
            what.append("forbidden declarations: " + "; ".join(forb))
        if bad_axioms:
            what.append("axioms outside the allowed list: " + ", ".join(bad_axioms))
        path = common.write_replay(pid, dict(property=pid, kind="proof-obligation-failed",
                                             theorem=f"Props/{pid}.v", what=" | ".join(what)))
        violations.append(("proof obligation failed", path, " no-failing-input-found"))
    if infra and not violations:
        path = common.write_replay(pid, dict(property=pid, kind="correspondence-broken",
                                             correspondence=f"{mod.COQ_MODULE}.check",
                                             what="infrastructure: " + " | ".join(infra)[:3000]))
        violations.append(("correspondence could not be evaluated", path, " no-failing-input-found"))

    # ---- evidence -----------------------------------------------------------------------------
    hashes = set()
    nontriv = 0
    streams = {}
    outcomes = {}
    for c, o in zip(cases, observations):
        streams[c.get("stream", "exact")] = streams.get(c.get("stream", "exact"), 0) + 1
        ok_kind = o.get("kind")
        if ok_kind == "err":
            ok_kind = "err:" + str(o.get("exc"))
        outcomes[ok_kind] = outcomes.get(ok_kind, 0) + 1
        h = common.case_hash(strip(c))
        if h not in hashes:
            hashes.add(h)
            try:
                if mod.nontrivial(c):
                    nontriv += 1
            except Exception:
                pass
    samples = [dict(case=strip(cases[i]), observed=observations[i]) for i in
               sorted(set([0, len(cases) // 2, len(cases) - 1])) if cases] if cases else []
    coverage = dict(
        obligations=obligations,
        discharged=discharged,
        checker_cmd=f"cd {common.COQ} && make -j{common.NPROC} && coqc -Q theories Flodym theories/Props/{pid}.v ; coqc on generated cases_*.v importing Flodym.{mod.COQ_MODULE} (vm_compute)",
        trusted_base=["Coq 8.16.1 kernel incl. vm_compute (no native_compute)"] + [f"axiom {a}" for a in props.get("axioms", [])]
        + ["harness/translate.py (source facts)", "correspondence harness (generators, drivers, Coq emission)"],
        theorems=props.get("printed", []),
        evaluations=sum(getattr(mod, 'weight', lambda c: 1)(c) for c in cases),
        cases=len(cases),
        distinct_nontrivial=nontriv,
        rule=mod.RULE,
        samples=samples,
        streams=streams,
        outcomes=outcomes,
        correspondence_disagreements=len(corr_fail),
        oracle_rejections=len(oracle_fail),
        known_findings_matched=len(known_lines),
        exhaustive=bool(getattr(mod, "EXHAUSTIVE", False)),
        translator=tr_msg,
        explanation=getattr(mod, "EXPLANATION", ""),
    )
    common.write_evidence(pid, tier, seed, coverage, getattr(mod, "ASSUMPTIONS", []), time.time() - t0,
                          len(violations))
    for l in known_lines:
        print(l)
    print(f"[{pid}] tier={tier} seed={seed} obligations={obligations} discharged={discharged} "
          f"cases={len(cases)} corr_disagree={len(corr_fail)} oracle_reject={len(oracle_fail)} "
          f"known={len(known_lines)} wall={time.time()-t0:.1f}s")
    if violations:
        for msg, path, suffix in violations:
            print(f"  {msg[:300]}")
            print(f"VIOLATION property={pid} replay={path}{suffix}")
        sys.exit(1)
    sys.exit(0)


if __name__ == "__main__":
    main()
