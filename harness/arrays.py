"""Building flodym arrays from JSON case descriptions, observing results exactly, emitting Coq terms,
and a small label-level reference implementation (Fractions) used by the oracles."""
from __future__ import annotations

import itertools
from fractions import Fraction

import numpy as np

from common import Codes, cq_list, cq_nat, cq_Q, cq_opt, letter_code, to_fraction

CODES = Codes()
NAMECODES = Codes()

# ---------------------------------------------------------------------------------------------
# universes


def mk_universe(lengths, letters="abcde", typed=False, int_dims=(), falsy=False):
    """dimension universe: letter -> dict(letter, name, items); with falsy=True the integer dimensions start at the item 0
    and the last text dimension starts with the empty string (items that are false in a boolean context)"""
    names = {"a": "alpha", "b": "beta", "c": "gamma", "d": "delta", "e": "epsilon", "t": "time",
             "p": "place", "r": "region", "m": "material", "g": "good"}
    uni = {}
    for l, n in zip(letters, lengths):
        if l in int_dims:
            items = [(0 if falsy else 2000) + 5 * i for i in range(n)]
        else:
            items = [f"{l}{i}" for i in range(n)]
        uni[l] = dict(letter=l, name=names.get(l, l + "dim"), items=items)
    if falsy:
        text = [l for l in uni if l not in int_dims]
        if text:
            uni[text[-1]]["items"][0] = ""
    return uni


def fl_dim(d):
    import flodym as fd

    return fd.Dimension(name=d["name"], letter=d["letter"], items=list(d["items"]))


def fl_dimset(uni, letters):
    import flodym as fd

    return fd.DimensionSet(dim_list=[fl_dim(uni[l]) for l in letters])


def build_array(uni, desc, cls=None):
    """desc = dict(dims=[letters], values=[flat row-major numbers], layout='C'|'F'|'V')"""
    import flodym as fd

    cls = cls or fd.FlodymArray
    ds = fl_dimset(uni, desc["dims"])
    shape = tuple(len(uni[l]["items"]) for l in desc["dims"])
    vals = np.array([float(Fraction(v)) for v in desc["values"]], dtype=float).reshape(shape)
    if desc.get("dtype") == "int" and all(Fraction(v).denominator == 1 for v in desc["values"]):
        vals = vals.astype(np.int64)      # whole numbers held in an integer array: how the values are stored must not matter
    elif desc.get("dtype") in ("uint8", "int8", "bool", "int32", "float32"):
        vals = vals.astype(desc["dtype"])  # (the values are chosen so that they fit)
    lay = desc.get("layout", "C")
    if lay == "F" and vals.ndim >= 2:
        vals = np.asfortranarray(vals)
    elif lay == "V" and vals.ndim >= 1:
        # a non-contiguous view into a bigger buffer
        big = np.zeros(tuple(2 * s for s in shape), dtype=vals.dtype)
        big[tuple(slice(None, None, 2) for _ in shape)] = vals
        vals = big[tuple(slice(None, None, 2) for _ in shape)]
    return cls(dims=ds, values=vals, **desc.get("kwargs", {}))


def obs_dims(dims):
    return [dict(letter=d.letter, name=d.name, items=[_plain(i) for i in d.items]) for d in dims]


def _plain(x):
    if isinstance(x, np.generic):
        return x.item()
    return x


def snap_fraction(fr, maxden=10**6):
    """tolerance stream: the closest rational with a small denominator if it is within 1e-9 (relative);
    otherwise the exact value of the float.  Never looks at the model's answer."""
    if fr is None:
        return None
    if fr.denominator <= 2 ** 40:      # a short dyadic value is what it is: keep it exact
        return fr
    s = fr.limit_denominator(maxden)
    if abs(s - fr) <= Fraction(1, 10**9) * max(1, abs(fr)):
        return s
    return fr


def observe_values(vals, snap=False):
    vals = np.asarray(vals)
    flat = [vals[idx] for idx in np.ndindex(*vals.shape)] if vals.ndim > 0 else [vals[()]]
    out = []
    for v in flat:
        fr = to_fraction(v)
        if snap:
            fr = snap_fraction(fr)
        out.append(None if fr is None else [fr.numerator, fr.denominator])
    return out


def observe_array(fa, snap=False):
    """observation of a FlodymArray: dims and flat row-major values as [num, den] / None (exact value of
    each float; with snap=True rounding noise is removed, see snap_fraction)"""
    vals = np.asarray(fa.values)
    out = observe_values(vals, snap)
    return dict(dims=obs_dims(fa.dims), shape=list(vals.shape), values=out)


def observe(fn):
    """run fn(); return ('ok', observation) or ('err', exception class name)"""
    try:
        r = fn()
    except Exception as e:  # noqa
        return dict(kind="err", exc=type(e).__name__, msg=str(e)[:200])
    return dict(kind="ok", value=r)


# ---------------------------------------------------------------------------------------------
# Coq emission


def cq_dim(d):
    items = cq_list([cq_nat(CODES(i)) for i in d["items"]])
    return f"(mk_dim {cq_nat(letter_code(d['letter']))} {cq_nat(NAMECODES(d['name']))} {items})"


def cq_dimset(ds):
    return cq_list([cq_dim(d) for d in ds])


def cq_farr(uni, desc):
    ds = cq_dimset([uni[l] for l in desc["dims"]])
    vs = cq_list([cq_Q(Fraction(v)) for v in desc["values"]])
    return f"(mk_farr {ds} {vs})"


def cq_oarr(obs):
    ds = cq_dimset(obs["dims"])
    vs = cq_list([cq_opt(None if v is None else cq_Q(Fraction(v[0], v[1]))) for v in obs["values"]])
    return f"(mk_oarr {ds} {vs})"


def cq_res(o, emit):
    return "Err" if o["kind"] == "err" else f"(Ok {emit(o['value'])})"


def cq_letters(ls):
    return cq_list([cq_nat(letter_code(l)) for l in ls])


# ---------------------------------------------------------------------------------------------
# label-level reference arrays (oracle side): dict { frozenset((letter,item),...) : Fraction }


class Lab:
    def __init__(self, dims, data):
        self.dims = dims  # list of dict(letter,name,items)
        self.data = data  # {tuple(items in dims order): Fraction or None}

    @property
    def letters(self):
        return [d["letter"] for d in self.dims]

    @classmethod
    def from_desc(cls, uni, desc):
        dims = [uni[l] for l in desc["dims"]]
        keys = list(itertools.product(*[d["items"] for d in dims]))
        return cls(dims, {k: Fraction(v) for k, v in zip(keys, desc["values"])})

    @classmethod
    def from_obs(cls, obs):
        dims = obs["dims"]
        keys = list(itertools.product(*[d["items"] for d in dims]))
        assert len(keys) == len(obs["values"]), "value count differs from product of item counts"
        return cls(dims, {k: (None if v is None else Fraction(v[0], v[1])) for k, v in zip(keys, obs["values"])})

    def at(self, lab):
        """lab: dict letter->item (may contain more letters than self has)"""
        return self.data[tuple(lab[l] for l in self.letters)]

    def labels(self):
        for k in itertools.product(*[d["items"] for d in self.dims]):
            yield dict(zip(self.letters, k))

    def marginal(self, keep_dims):
        """sum over all dimensions not in keep (keep_dims: list of dim dicts, all in self)"""
        keep_letters = [d["letter"] for d in keep_dims]
        out = {}
        for lab in self.labels():
            k = tuple(lab[l] for l in keep_letters)
            out[k] = out.get(k, Fraction(0)) + self.at(lab)
        return Lab(list(keep_dims), out)


def same_dims(obs_dims_, exp_dims, ordered=True):
    a = [(d["letter"], d["name"], list(d["items"])) for d in obs_dims_]
    b = [(d["letter"], d["name"], list(d["items"])) for d in exp_dims]
    if ordered:
        return a == b
    return sorted(a, key=str) == sorted(b, key=str)


def compare_lab(obs, exp: Lab, ordered=True, what="result"):
    """compare an observed array with the expected label-level array; returns None or message"""
    if not same_dims(obs["dims"], exp.dims, ordered):
        return f"{what}: dims {[ (d['letter'], len(d['items'])) for d in obs['dims']]} != expected {[(d['letter'], len(d['items'])) for d in exp.dims]}"
    shape = [len(d["items"]) for d in obs["dims"]]
    if list(obs["shape"]) != shape:
        return f"{what}: values shape {obs['shape']} != dims shape {shape}"
    got = Lab.from_obs(obs)
    for lab in exp.labels():
        e = exp.at(lab)
        g = got.at(lab)
        if e is None:
            continue
        if g != e:
            return f"{what}: entry {lab} is {g}, expected {e}"
    return None


# ---------------------------------------------------------------------------------------------
# value generators


def fingerprint_values(n, base=2):
    return [base**k for k in range(n)]


def random_values(rng, n, lo=-9, hi=9):
    return [rng.randint(lo, hi) for _ in range(n)]


def ordered_subsets(letters, max_len=None):
    """all ordered sub-tuples (every subset in every order)"""
    out = []
    for k in range(0, (max_len if max_len is not None else len(letters)) + 1):
        for sub in itertools.permutations(letters, k):
            out.append(list(sub))
    return out


def nelem(uni, letters):
    n = 1
    for l in letters:
        n *= len(uni[l]["items"])
    return n
