"""Key descriptions for label indexing: Python key objects, Coq terms, and the label-level meaning."""
from fractions import Fraction
import itertools

import numpy as np

from arrays import (CODES, NAMECODES, Lab, cq_dim, cq_farr, cq_oarr, cq_res, fl_dim, observe, observe_array,
                    observe_values, build_array)
from common import cq_list, cq_nat, cq_Q, letter_code, cq_bool

# key description:
#   {"form":"ellipsis"} | {"form":"slice"} | {"form":"bare","item":x} | {"form":"tuple","items":[...]}
#   {"form":"dict","entries":[[style,letter,sel],...]}  style in "L","N";
#       sel = ["single",item] | ["dim",{"letter","name","items"}] | ["list",[items]]


def py_key(uni, key):
    """the Python key; for every other key (decided from the key itself) integer items are handed over as numpy integers, as they
    come out of a numpy array or a DataFrame"""
    import numpy as np
    as_np = len(str(key)) % 2 == 1
    it = (lambda x: np.int64(x) if (as_np and isinstance(x, int) and not isinstance(x, bool)) else x)
    f = key["form"]
    if f == "ellipsis":
        return ...
    if f == "slice":
        return slice(0, 1)
    if f == "bare":
        return it(key["item"])
    if f == "tuple":
        return tuple(it(x) for x in key["items"])
    d = {}
    for style, l, sel in key["entries"]:
        k = l if style == "L" else (uni[l]["name"] if l in uni else l)
        if sel[0] == "single":
            d[k] = it(sel[1])
        elif sel[0] == "dim":
            d[k] = fl_dim(sel[1])
        else:
            d[k] = [it(x) for x in sel[1]]
    return d


def cq_key(uni, key):
    f = key["form"]
    if f == "ellipsis":
        return "KEllipsis"
    if f == "slice":
        return "KSlice"
    if f == "bare":
        return f"(KBare {cq_nat(CODES(key['item']))})"
    if f == "tuple":
        return f"(KTuple {cq_list([cq_nat(CODES(i)) for i in key['items']])})"
    ents = []
    for style, l, sel in key["entries"]:
        if style == "L":
            k = f"(KLetter {cq_nat(letter_code(l))})"
        else:
            nm = uni[l]["name"] if l in uni else l
            k = f"(KName {cq_nat(NAMECODES(nm))})"
        if sel[0] == "single":
            s = f"(ISingle {cq_nat(CODES(sel[1]))})"
        elif sel[0] == "dim":
            s = f"(IDim {cq_dim(sel[1])})"
        else:
            s = f"(IList {cq_list([cq_nat(CODES(i)) for i in sel[1]])})"
        ents.append(f"({k}, {s})")
    return f"(KDict {cq_list(ents)})"


def normalise(uni, dims, key):
    """label-level meaning of a key w.r.t. an array over `dims` (list of letters):
    returns ('err', why) when the property demands a refusal, else ('ok', {letter: sel}) with
    sel = ('single', item) | ('dim', dimdict) | ('list', items)"""
    f = key["form"]
    if f == "ellipsis":
        return "ok", {}
    if f == "slice":
        return "err", "numpy-style slice"
    out = {}
    if f in ("bare", "tuple"):
        items = [key["item"]] if f == "bare" else list(key["items"])
        grouped = {}
        for it in items:
            holders = [l for l in dims if it in uni[l]["items"]]
            if len(holders) == 0:
                return "err", f"unknown item {it!r}"
            if len(holders) > 1:
                return "err", f"item {it!r} present in several dimensions"
            grouped.setdefault(holders[0], []).append(it)
        for l, its in grouped.items():
            out[l] = ("single", its[0]) if len(its) == 1 else ("list", its)
        return "ok", out
    for style, l, sel in key["entries"]:
        if l not in dims:
            return "err", f"dimension {l} not in array"
        if l in out:
            return "undef", "dimension addressed twice"
        items = uni[l]["items"]
        if sel[0] == "single":
            if sel[1] not in items:
                return "err", f"unknown item {sel[1]!r}"
            out[l] = ("single", sel[1])
        elif sel[0] == "dim":
            if not set(sel[1]["items"]) <= set(items):
                return "err", "Dimension is not a subset"
            out[l] = ("dim", sel[1])
        else:
            if any(i not in items for i in sel[1]):
                return "err", "unknown item in list"
            out[l] = ("list", list(sel[1]))
    return "ok", out


def expected_getitem(uni, x: Lab, sel):
    """dims: single selections dropped, subset selections replaced; entries by label"""
    dims = []
    for d in x.dims:
        s = sel.get(d["letter"])
        if s is None:
            dims.append(d)
        elif s[0] == "dim":
            dims.append(s[1])
    out = Lab(dims, {})
    for combo in itertools.product(*[d["items"] for d in dims]):
        lab = {}
        it = iter(combo)
        for d in x.dims:
            s = sel.get(d["letter"])
            if s is None or s[0] == "dim":
                lab[d["letter"]] = next(it)
            else:
                lab[d["letter"]] = s[1]
        out.data[tuple(combo)] = x.at(lab)
    return out


def in_region(sel, lab):
    for l, s in sel.items():
        if s[0] == "single":
            if lab[l] != s[1]:
                return False
        elif s[0] == "dim":
            if lab[l] not in s[1]["items"]:
                return False
        else:
            if lab[l] not in s[1]:
                return False
    return True


def region_dims(uni, dims, sel):
    """dimensions of the addressed region (dims_out of the handler): single dropped, subset Dimension
    replaced, list keeps the (full) dimension object"""
    out = []
    for l in dims:
        s = sel.get(l)
        if s is None or s[0] == "list":
            out.append(uni[l])
        elif s[0] == "dim":
            out.append(s[1])
    return out


def cq_rhs(uni, rhs):
    k = rhs["kind"]
    if k == "arr":
        return f"(RArr Qc {cq_farr(uni, rhs['arr'])})"
    if k == "num":
        return f"(RNum Qc {cq_Q(Fraction(rhs['c']))})"
    sh = cq_list([cq_nat(s) for s in rhs["shape"]])
    vs = cq_list([cq_Q(Fraction(v)) for v in rhs["values"]])
    return f"(RNd Qc (mk_nd {sh} {vs}))"


def py_rhs(uni, rhs):
    k = rhs["kind"]
    if k == "arr":
        return build_array(uni, rhs["arr"])
    if k == "num":
        return rhs["c"]
    nd = np.array([float(v) for v in rhs["values"]]).reshape(tuple(rhs["shape"]))
    if rhs.get("dtype"):
        nd = nd.astype(rhs["dtype"])               # the same whole numbers held in another number type
    sub = rhs.get("subclass")
    if sub == "masked":
        nd = np.ma.masked_array(nd)                 # no entry masked: the same numbers in an ndarray subclass
    elif sub == "custom":
        class Tagged(np.ndarray):
            pass
        nd = nd.view(Tagged)
    elif sub == "memory":
        nd = np.asfortranarray(nd) if nd.ndim >= 2 else (nd[::1] if nd.ndim == 1 else nd)
    return nd


def observe_raw(fa):
    """post-state of an array whose values may have any shape"""
    from arrays import obs_dims
    vals = np.asarray(fa.values)
    return dict(dims=obs_dims(fa.dims), shape=list(vals.shape), values=observe_values(vals))
